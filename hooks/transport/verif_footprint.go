//go:build verif

package transport

import (
	"reflect"
	"strings"
	"unsafe"
)

// VerifFootprint walks everything reachable from the Server object through fields of this repository's own
// types and counts what containers hold: entries of maps, queued elements of channels, elements of slices
// (capacity for byte slices, so that a reused buffer counts the same whatever it held last).  It is the
// white-box measure for "keeps no per-client state": whatever field such state is kept in - also one that
// did not exist when the check was written - the count grows with it.  Values of types from other modules
// (the socket, timers, sync primitives) are not entered.  The caller runs on the single simulated processor
// between scheduling points, so no lock is taken.
func (s *Server) VerifFootprint() int {
	w := &footprintWalker{seen: map[unsafe.Pointer]bool{}}
	w.walk(reflect.ValueOf(s), 0)
	return w.total
}

type footprintWalker struct {
	seen  map[unsafe.Pointer]bool
	total int
}

func ownType(t reflect.Type) bool {
	for t.Kind() == reflect.Pointer {
		t = t.Elem()
	}
	p := t.PkgPath()
	return p == "" || strings.HasPrefix(p, "hop.computer/hop")
}

func (w *footprintWalker) walk(v reflect.Value, depth int) {
	if depth > 40 || !v.IsValid() {
		return
	}
	switch v.Kind() {
	case reflect.Pointer:
		if v.IsNil() || !ownType(v.Type()) {
			return
		}
		p := v.UnsafePointer()
		if w.seen[p] {
			return
		}
		w.seen[p] = true
		w.walk(v.Elem(), depth+1)
	case reflect.Interface:
		if v.IsNil() {
			return
		}
		e := v.Elem()
		if !ownType(e.Type()) {
			return
		}
		w.walk(e, depth+1)
	case reflect.Struct:
		if !ownType(v.Type()) {
			return
		}
		for i := 0; i < v.NumField(); i++ {
			f := v.Field(i)
			if !f.CanInterface() && f.CanAddr() {
				f = reflect.NewAt(f.Type(), unsafe.Pointer(f.UnsafeAddr())).Elem()
			}
			w.walk(f, depth+1)
		}
	case reflect.Map:
		if v.IsNil() {
			return
		}
		p := v.UnsafePointer()
		if w.seen[p] {
			return
		}
		w.seen[p] = true
		w.total += v.Len()
		it := v.MapRange()
		for it.Next() {
			w.walk(it.Value(), depth+1)
		}
	case reflect.Slice:
		if v.IsNil() {
			return
		}
		if v.Type().Elem().Kind() == reflect.Uint8 {
			w.total += v.Cap()
			return
		}
		w.total += v.Len()
		for i := 0; i < v.Len(); i++ {
			w.walk(v.Index(i), depth+1)
		}
	case reflect.Array:
		if k := v.Type().Elem().Kind(); k == reflect.Pointer || k == reflect.Struct || k == reflect.Interface || k == reflect.Map || k == reflect.Slice {
			for i := 0; i < v.Len(); i++ {
				w.walk(v.Index(i), depth+1)
			}
		}
	case reflect.Chan:
		if !v.IsNil() {
			w.total += v.Len()
		}
	}
}
