package sim

import (
	cryptorand "crypto/rand"
	"fmt"
	"strings"
	"sync"
	"time"

	"hop.computer/hop/certs"
	"hop.computer/hop/hopserver"
	"hop.computer/hop/keys"
	"hop.computer/hop/transport"
)

// C01 — a handshake completes only with a peer that proved its certified key.
//
// Counterfeit peers are built from the real endpoint code with wrong material;
// ground truth is how the harness built the counterpart, never the result of
// the verification code under test.

func init() {
	Register(&Scenario{Name: "counterfeit-peer", Property: "C01", Fn: scCounterfeit})
}

type fakeKind int

const (
	fkHonest fakeKind = iota
	fkWrongKey
	fkOtherName
	fkExpired
	fkNotYetValid
	fkWrongType
	fkUntrustedRoot
	fkSelfSigned
	fkWrongKEM // server only (hidden mode)
	fkSameLabelOtherType
	fkCount
)

var fakeNames = []string{"honest", "valid-cert-other-key", "cert-for-other-name", "expired", "not-yet-valid", "intermediate-typed-leaf", "untrusted-root", "self-signed", "wrong-kem-key", "same-label-other-name-type"}

// identity is the material a peer presents.
type identity struct {
	kind      fakeKind
	exchanger *keys.X25519KeyPair // the key the peer really holds
	leaf      *certs.Certificate
	inter     *certs.Certificate
	// ground truth
	possession bool // holds the private key named in leaf
	chainOK    bool // leaf type, trusted chain, valid at handshake time (name judged separately)
	nameOK     bool // leaf carries the expected name
	leafType   bool
	waitBefore time.Duration           // simulated time to let pass before the handshake (expiry)
	prep       [][2]*certs.Certificate // (leaf, intermediate slot) of earlier attempts by the same impostor
}

// makeIdentity builds the presented material for kind under the trusted PKI.
func makeIdentity(r *Run, kind fakeKind, trusted *PKI, name certs.Name, otherName certs.Name) *identity {
	id := &identity{kind: kind, exchanger: newX25519(), possession: true, chainOK: true, nameOK: true, leafType: true}
	certKey := id.exchanger.Public
	switch kind {
	case fkHonest, fkWrongKEM:
		id.leaf, id.inter = trusted.Leaf(certKey, 24*time.Hour, name), trusted.Int
	case fkWrongKey:
		victim := newX25519() // the certificate names somebody else's key
		id.leaf, id.inter = trusted.Leaf(victim.Public, 24*time.Hour, name), trusted.Int
		id.possession = false
	case fkOtherName:
		id.leaf, id.inter = trusted.Leaf(certKey, 24*time.Hour, otherName), trusted.Int
		id.nameOK = false
	case fkSameLabelOtherType:
		// the expected label, certified under another name type (e.g. a raw-string user name equal to the DNS name)
		t := certs.TypeRaw
		if name.Type == certs.TypeRaw {
			t = certs.TypeDNSName
		}
		id.leaf, id.inter = trusted.Leaf(certKey, 24*time.Hour, certs.Name{Type: t, Label: name.Label}), trusted.Int
		id.nameOK = false
	case fkExpired:
		id.leaf, id.inter = trusted.Leaf(certKey, 10*time.Second, name), trusted.Int
		id.waitBefore = 10*time.Second + time.Duration(r.Intn("expiry", 3))*time.Second
		id.chainOK = false
	case fkNotYetValid:
		c, err := certs.IssueLeafAt(trusted.Int, &certs.Identity{PublicKey: certKey, Names: []certs.Name{name}}, time.Now().Add(time.Hour), 24*time.Hour)
		must(err)
		id.leaf, id.inter = c, trusted.Int
		id.chainOK = false
	case fkWrongType:
		// an intermediate-typed certificate (signed by the trusted root) presented as the leaf
		c, err := certs.IssueIntermediate(trusted.Root, &certs.Identity{PublicKey: certKey, Names: []certs.Name{name}})
		must(err)
		id.leaf, id.inter = c, trusted.Int
		id.chainOK, id.leafType = false, false
	case fkUntrustedRoot:
		rogue := NewPKI("rogue")
		id.leaf, id.inter = rogue.Leaf(certKey, 24*time.Hour, name), rogue.Int
		id.chainOK = false
		// the impostor may prepare the ground with earlier attempts that are bound to fail but might leave
		// something behind in a long-lived verifier: its own ROOT presented in the intermediate slot (with a
		// leaf that names it as parent), its intermediate under the wrong slot order, ...
		if r.Intn("prep", 2) == 0 {
			now := time.Now()
			l1, err := certs.VerifIssue(rogue.Root, &certs.Identity{PublicKey: certKey, Names: []certs.Name{name}}, certs.Leaf, now, 24*time.Hour)
			if err == nil {
				id.prep = append(id.prep, [2]*certs.Certificate{l1, rogue.Root})
			}
			if r.Intn("prep", 2) == 0 {
				id.prep = append(id.prep, [2]*certs.Certificate{rogue.Int, rogue.Root})
			}
			if r.Intn("prep", 2) == 0 {
				id.prep = append(id.prep, [2]*certs.Certificate{id.leaf, rogue.Root})
			}
		}
	case fkSelfSigned:
		id.leaf = SelfSigned(certKey, name)
		id.chainOK = false
	}
	return id
}

// forgeProofs lets the impostors of a run tamper with the proofs in their OWN final handshake
// messages (ClientAuth, hidden ClientRequest, ServerAuth, hidden ServerResponse): a party that
// does not hold the certified key cannot compute the last MAC, so it tries the cheap
// substitutes -- leave it out (truncate), shorten it, zero it, invert it, swap its halves,
// repeat the previous field.  None of this can make an impostor authentic; the oracle is unchanged.
func forgeProofs(r *Run, n *Net, isImpostor func(src string) bool) {
	if r.Intn("forge", 3) != 0 {
		return
	}
	mode := r.Intn("forge", 8)
	cut := 1 + r.Intn("forge", 32)
	r.SetCfg("forge", mode)
	n.Tap = func(d *Dgram) bool {
		if len(d.Data) < 64 || !isImpostor(d.Src.String()) {
			return true
		}
		switch d.Data[0] {
		case 0x04, 0x05, 0x08, 0x09:
		default:
			return true
		}
		c := d.clone()
		L := len(c.Data)
		mac := c.Data[L-16:]
		switch mode {
		case 0: // the final MAC left out
			c.Data = c.Data[:L-16]
		case 1: // cut short by 1..32 bytes
			c.Data = c.Data[:L-cut]
		case 2:
			for i := range mac {
				mac[i] = 0
			}
		case 3: // every byte inverted (same XOR fold, same length)
			for i := range mac {
				mac[i] ^= 0xff
			}
		case 4: // halves swapped (same byte multiset)
			for i := 0; i < 8; i++ {
				mac[i], mac[i+8] = mac[i+8], mac[i]
			}
		case 5: // the preceding 16 bytes repeated
			copy(mac, c.Data[L-32:L-16])
		case 6: // only the first byte kept
			c.Data = c.Data[:L-15]
		case 7: // two bytes changed by the same mask
			m := byte(1 + r.Intn("forge", 255))
			i := r.Intn("forge", 16)
			j := (i + 1 + r.Intn("forge", 15)) % 16
			mac[i] ^= m
			mac[j] ^= m
		}
		c.Mut = fmt.Sprintf("forged-proof/%d", mode)
		r.CountFault(fmt.Sprintf("counterfeit-forged-proof/%d", mode), 1)
		n.Redeliver(c, n.Cfg.Latency)
		return false
	}
}

func scCounterfeit(r *Run) {
	n := NewNet(r)
	defer n.Stop()
	n.Cfg.Latency = time.Duration(1+r.Intn("cfg", 10)) * time.Millisecond
	if r.Intn("cfg", 3) == 0 { // benign reordering / duplication of handshake packets
		n.Cfg.Jitter = time.Duration(r.Intn("cfg", 20)) * time.Millisecond
		n.Cfg.PDup = r.Float("cfg") * 0.3
	}
	benign := n.Cfg.PDup == 0 && n.Cfg.Jitter == 0
	hidden := r.Intn("cfg", 2) == 0
	impostorIsServer := r.Intn("cfg", 2) == 0
	r.SetCfg("hidden", hidden)
	serverName := certs.DNSName("server.sim")
	otherName := certs.DNSName("other.sim")
	pki := NewPKI("ca")

	if impostorIsServer {
		kind := fakeKind(r.Intn("kind", int(fkCount)))
		if kind == fkWrongKEM && !hidden {
			kind = fkWrongKey
		}
		pinOK := true
		policy := r.Intn("policy", 4) // 0 store+name, 1 store without name, 2 skip verification, 3 skip verification + pinned key
		r.SetCfg("impostor", "server/"+fakeNames[kind])
		r.SetCfg("client-policy", []string{"store+name", "store", "skip", "skip+pin"}[policy])
		id := makeIdentity(r, kind, pki, serverName, otherName)
		realKEM, err := keys.GenerateKEMKeyPair(cryptorand.Reader)
		must(err)
		srvKEM := realKEM
		if kind == fkWrongKEM {
			srvKEM, err = keys.GenerateKEMKeyPair(cryptorand.Reader)
			must(err)
		}
		ep := n.Listen("server", Addr(1, 77), nil)
		if !(id.possession && kind != fkWrongKEM) {
			forgeProofs(r, n, func(src string) bool { return src == Addr(1, 77).String() })
		}
		cfg := transport.ServerConfig{KeyPair: id.exchanger, KEMKeyPair: srvKEM, Certificate: id.leaf, Intermediate: id.inter,
			HandshakeTimeout: 3 * time.Second, ClientVerify: &transport.VerifyConfig{InsecureSkipVerify: true}, IsHidden: hidden}
		srv, err := transport.NewServer(ep, cfg)
		must(err)
		go srv.Serve()
		defer srv.Close()
		NewHandleRegistry(r, srv)
		if id.waitBefore > 0 {
			time.Sleep(id.waitBefore)
		}
		ck := newX25519()
		ccfg := transport.ClientConfig{Exchanger: ck, Leaf: SelfSigned(ck.Public), HSTimeout: 3 * time.Second,
			Verify: transport.VerifyConfig{Store: pki.Store(), Name: serverName}}
		switch policy {
		case 1:
			ccfg.Verify.Name = certs.Name{}
		case 2:
			ccfg.Verify = transport.VerifyConfig{InsecureSkipVerify: true, Name: serverName}
		case 3:
			// what the principal of an authorization grant does: no chain verification, but the presented leaf
			// must carry the key that was pinned for this server
			pin := keys.DHPublicKey(id.leaf.PublicKey)
			if kind != fkHonest && kind != fkWrongKey && kind != fkWrongKEM {
				pin = newX25519().Public // (the key of the genuine server, which this impostor does not present)
			}
			pinOK = kind == fkHonest || kind == fkWrongKey || kind == fkWrongKEM
			ccfg.Verify = transport.VerifyConfig{InsecureSkipVerify: true, Name: serverName,
				AddVerifyCallback: func(c *certs.Certificate) error {
					if keys.DHPublicKey(c.PublicKey) != pin {
						return fmt.Errorf("leaf carries another key than the pinned one")
					}
					return nil
				}}
		}
		if hidden {
			ccfg.ServerKEMKey = &realKEM.Public
		}
		cep := n.Listen("client", Addr(2, 4000), Addr(1, 77))
		c := transport.NewClient(cep, Addr(1, 77), ccfg)
		// other goroutines of the application ask for the handshake's outcome too, at any time; the one that
		// runs the handshake may be descheduled for a while inside a socket call (a stalled thread)
		var lateMu sync.Mutex
		lateNil := 0
		nLate := 0
		if r.Intn("late", 2) == 0 {
			nLate = 1 + r.Intn("late", 4)
			if r.Intn("late", 2) == 0 {
				cep.DeadlineStall = func() time.Duration {
					if r.Intn("dlstall", 2) == 0 {
						return 0
					}
					r.CountFault("deadline-call-stall", 1)
					return time.Duration(1+r.Intn("dlstall", 400)) * time.Millisecond
				}
			}
		}
		var lateWG sync.WaitGroup
		for i := 0; i < nLate; i++ {
			at := time.Duration(r.Intn("late", 4000)) * time.Millisecond
			if r.Intn("late", 2) == 0 { // around the time the server's last message arrives
				at = time.Duration(r.Intn("late", 8)) * n.Cfg.Latency
			}
			lateWG.Add(1)
			r.Go(func() {
				defer lateWG.Done()
				time.Sleep(at)
				var e error
				if WithTimeout(r, 30*time.Second, func() { e = c.Handshake() }) && e == nil {
					lateMu.Lock()
					lateNil++
					lateMu.Unlock()
				}
			})
		}
		var herr error
		returned := WithTimeout(r, 30*time.Second, func() { herr = c.Handshake() })
		if !returned {
			c.Close()
			herr = fmt.Errorf("no return")
		}
		WithTimeout(r, 40*time.Second, func() { lateWG.Wait() })
		lateMu.Lock()
		if lateNil > 0 && herr != nil {
			// a concurrent caller was told "success" for the handshake that failed
			r.Logf("handshake failed with %v, but %d concurrent Handshake() call(s) returned nil", herr, lateNil)
			herr = nil
		}
		lateMu.Unlock()
		authentic := id.possession && kind != fkWrongKEM
		switch policy {
		case 0:
			authentic = authentic && id.chainOK && id.nameOK
		case 1:
			authentic = authentic && id.chainOK
		case 3:
			authentic = authentic && pinOK
		}
		r.Obligation(1)
		if kind != fkHonest {
			r.CountFault("counterfeit-server/"+fakeNames[kind], 1)
		}
		if herr == nil && !authentic {
			r.Violate("C01/client-accepted-counterfeit-server/"+fakeNames[kind],
				"client Handshake() succeeded (mode hidden=%v, client policy %s) with a server presenting: %s (possession=%v chainOK=%v nameOK=%v)",
				hidden, []string{"store+name", "store", "skip", "skip+pin"}[policy], fakeNames[kind], id.possession, id.chainOK, id.nameOK)
		}
		if herr != nil && kind == fkHonest && benign {
			r.Violate("C01/nofault/honest-server-rejected", "honest server rejected on a faithful network (hidden=%v policy=%d): %v", hidden, policy, herr)
		}
		r.Sample = append(r.Sample, fmt.Sprintf("server %s hidden=%v policy=%d -> client err=%v", fakeNames[kind], hidden, policy, herr))
		c.Close()
		return
	}

	// --- impostor client against an honest server with a verification policy
	policy := r.Intn("policy", 4) // 0 CA store, 1 authorized keys, 2 both, 3 skip
	policyName := []string{"ca-store", "authorized-keys", "both", "skip"}[policy]
	r.SetCfg("server-policy", policyName)
	clientPKI := NewPKI("client-ca")
	nClients := 1 + r.Intn("cfg", 3)
	type cl struct {
		id                *identity
		listed            bool
		addr              byte
		tc                *transport.Client
		herr              error
		tag               string
		authOK            bool
		listedAs          string
		listedThenRemoved bool
	}
	var cls []*cl
	authKeys := AuthKeySet()
	for i := 0; i < nClients; i++ {
		kind := fakeKind(r.Intn("kind", int(fkWrongKEM)))
		if r.Intn("kind", 10) == 0 {
			kind = fkSameLabelOtherType // (server policies here request no name: must be treated like an honest client)
		}
		if i == nClients-1 && r.Intn("kind", 3) == 0 {
			kind = fkHonest
		}
		c := &cl{id: makeIdentity(r, kind, clientPKI, certs.RawStringName("user"), certs.RawStringName("other")), addr: byte(10 + i)}
		// is the key the certificate names listed as authorized?
		c.listed = r.Intn("listed", 2) == 0
		if c.listed {
			authKeys.AddKey(c.id.leaf.PublicKey)
		} else if r.Intn("listed", 2) == 0 {
			// the key WAS authorized once (a consumed grant, an edited file): listed, then removed again
			authKeys.AddKey(c.id.leaf.PublicKey)
			authKeys.RemoveKey(c.id.leaf.PublicKey)
			c.listedThenRemoved = true
			r.CountFault("counterfeit-key-listed-then-removed", 1)
		}
		c.tag = fmt.Sprintf("client-%d-%s", i, fakeNames[kind])
		cls = append(cls, c)
	}
	cv := &transport.VerifyConfig{}
	switch policy {
	case 0:
		cv.Store = clientPKI.Store()
	case 1:
		cv.AuthKeys, cv.AuthKeysAllowed = authKeys, true
	case 2:
		cv.Store = clientPKI.Store()
		cv.AuthKeys, cv.AuthKeysAllowed = authKeys, true
	case 3:
		cv.InsecureSkipVerify = true
	}
	var srv *TServer
	if r.Intn("cfg", 2) == 0 {
		// the server is built by the real hopserver.NewHopServer: the verification policy is what the
		// constructor derives from the configuration (CA certificates, the enable/disable switches)
		var hs *hopserver.HopServer
		srv, hs = StartServerViaHopServer(r, n, ServerOpts{PKI: pki, Hidden: hidden, HSTimeout: 3 * time.Second}, policy,
			[]*certs.Certificate{clientPKI.Root, clientPKI.Int})
		if srv != nil {
			r.Probe("policy-derived-by-the-real-NewHopServer")
			if ks := hs.VerifKeyStore(); ks != nil {
				for _, c := range cls {
					if c.listed {
						ks.AddKey(c.id.leaf.PublicKey)
					} else if c.listedThenRemoved {
						ks.AddKey(c.id.leaf.PublicKey)
						ks.RemoveKey(c.id.leaf.PublicKey)
					}
				}
			} else if policy == 1 || policy == 2 {
				r.Violate("C01/policy-not-derived/no-key-set", "hopserver.NewHopServer, configured for the policy %s, handed its transport layer no set of authorized keys: that policy is not in force", policyName)
				return
			}
		}
	}
	if srv == nil {
		srv = StartServer(r, n, ServerOpts{PKI: pki, Hidden: hidden, ClientVerify: cv, HSTimeout: 3 * time.Second})
	}
	defer srv.Srv.Close()
	reg := NewHandleRegistry(r, srv.Srv)
	maxWait := time.Duration(0)
	for _, c := range cls {
		if c.id.waitBefore > maxWait {
			maxWait = c.id.waitBefore
		}
	}
	// the server is not new: somebody connected (or tried to) before the certificates of this run's impostors
	// ran out - whatever a long-lived server keeps from one handshake to the next is in place
	if r.Intn("early", 2) == 0 {
		ek := fakeKind(r.Intn("early", 2)) // honest, or a certificate for somebody else's key
		eid := makeIdentity(r, ek, clientPKI, certs.RawStringName("early-visitor"), certs.RawStringName("other"))
		ecfg := transport.ClientConfig{Exchanger: eid.exchanger, Leaf: eid.leaf, Intermediate: eid.inter, HSTimeout: 3 * time.Second,
			Verify: transport.VerifyConfig{Store: pki.Store(), Name: srv.Name}}
		if hidden {
			ecfg.ServerKEMKey = &srv.KEM.Public
		}
		eep := n.Listen("early-visitor", Addr(9, 3999), srv.Addr)
		ec := transport.NewClient(eep, srv.Addr, ecfg)
		WithTimeout(r, 30*time.Second, func() { ec.Handshake() })
		WithTimeout(r, 30*time.Second, func() { ec.Close() })
		r.CountFault("earlier-handshake-on-the-same-server", 1)
	}
	time.Sleep(maxWait)
	for _, c := range cls {
		c := c
		id := c.id
		switch policy {
		case 0:
			c.authOK = id.possession && id.chainOK
		case 1:
			c.authOK = id.possession && c.listed && id.leafType
		case 2:
			c.authOK = id.possession && ((c.listed && id.leafType) || id.chainOK)
		case 3:
			c.authOK = id.possession
		}
		ccfg := transport.ClientConfig{Exchanger: id.exchanger, Leaf: id.leaf, Intermediate: id.inter, HSTimeout: 3 * time.Second,
			Verify: transport.VerifyConfig{Store: pki.Store(), Name: srv.Name}}
		if hidden {
			ccfg.ServerKEMKey = &srv.KEM.Public
		}
		ep := n.Listen(c.tag, Addr(c.addr, 4000), srv.Addr)
		c.tc = transport.NewClient(ep, srv.Addr, ccfg)
		if id.kind != fkHonest {
			r.CountFault("counterfeit-client/"+fakeNames[id.kind], 1)
		}
	}
	forgeProofs(r, n, func(src string) bool {
		for _, c := range cls {
			if !c.id.possession && src == Addr(c.addr, 4000).String() {
				return true
			}
		}
		return false
	})
	// all clients run concurrently
	done := make(chan struct{}, len(cls))
	for _, c := range cls {
		c := c
		r.Go(func() {
			for j, p := range c.id.prep {
				pcfg := transport.ClientConfig{Exchanger: c.id.exchanger, Leaf: p[0], Intermediate: p[1], HSTimeout: 3 * time.Second,
					Verify: transport.VerifyConfig{Store: pki.Store(), Name: srv.Name}}
				if hidden {
					pcfg.ServerKEMKey = &srv.KEM.Public
				}
				pep := n.Listen(fmt.Sprintf("%s-prep%d", c.tag, j), Addr(c.addr, 4100+j), srv.Addr)
				pc := transport.NewClient(pep, srv.Addr, pcfg)
				WithTimeout(r, 30*time.Second, func() { pc.Handshake() })
				pc.Close()
				r.CountFault("counterfeit-preparatory-attempt", 1)
			}
			if !WithTimeout(r, 30*time.Second, func() { c.herr = c.tc.Handshake() }) {
				c.tc.Close()
				c.herr = fmt.Errorf("no return")
			}
			if c.herr == nil {
				// whatever keys the client derived, it now tries to get data delivered
				c.tc.WriteMsg([]byte("data-from-" + c.tag))
				time.Sleep(50 * time.Millisecond)
				c.tc.WriteMsg([]byte("data-from-" + c.tag))
			}
			done <- struct{}{}
		})
	}
	for range cls {
		<-done
	}
	time.Sleep(2 * time.Second)
	// what did the server's application see?
	for _, h := range reg.All {
		vs, _ := h.VerifSession()
		var owner *cl
		for _, c := range cls {
			if vs.Remote != nil && vs.Remote.IP.Equal(Addr(c.addr, 4000).IP) {
				owner = c
			}
		}
		if owner == nil {
			continue
		}
		r.Obligation(1)
		if !hidden && !owner.authOK {
			r.Violate("C01/connection-offered-to-unauthentic-client/"+fakeNames[owner.id.kind],
				"discoverable server (policy %s) offered to Accept a connection from %s (possession=%v chainOK=%v key listed=%v)", policyName, owner.tag, owner.id.possession, owner.id.chainOK, owner.listed)
		}
		buf := make([]byte, 200)
		h.SetReadDeadline(time.Now().Add(200 * time.Millisecond))
		k, err := h.ReadMsg(buf)
		if err == nil {
			from := string(buf[:k])
			r.Obligation(1)
			var sender *cl
			for _, c := range cls {
				if strings.HasSuffix(from, c.tag) {
					sender = c
				}
			}
			if sender == nil || !sender.authOK {
				r.Violate("C01/data-delivered-from-unauthentic-client/"+fakeNames[owner.id.kind],
					"server (hidden=%v, policy %s) delivered %q to the application; sender possession=%v chainOK=%v key listed=%v", hidden, policyName, from, owner.id.possession, owner.id.chainOK, owner.listed)
			}
		}
	}
	for _, c := range cls {
		r.Sample = append(r.Sample, fmt.Sprintf("%s policy=%s hidden=%v authentic=%v -> client err=%v", c.tag, policyName, hidden, c.authOK, c.herr))
		if c.id.kind == fkHonest && c.authOK && c.herr != nil && benign {
			r.Violate("C01/nofault/honest-client-rejected", "honest client (policy %s, hidden=%v, listed=%v) failed its handshake on a benign network: %v", policyName, hidden, c.listed, c.herr)
		}
		c.tc.Close()
	}
}
