//go:build verif

package common

import _ "unsafe" // go:linkname

// VerifYieldHook is set by the simulation harness (DESIGN.md section 2.4).  It is nil
// in every build that does not carry the verif tag, because this file is
// injected with -overlay and does not exist in the repository.
var VerifYieldHook func(site int)

// VerifY is the call inserted by /verif/tools/instrument before synchronisation
// statements of the instrumented copies.
//
//go:norace
func VerifY(site int) {
	if h := VerifYieldHook; h != nil {
		h(site)
	}
}

// VerifLoops counts the loop iterations the instrumented copies executed on the current goroutine since
// another goroutine last ran (a goroutine that parks lets others run, so the count is the length of a
// stretch of looping without ever blocking); VerifLoopHook is called when the count passes VerifLoopLimit:
// a loop that neither ends nor blocks would otherwise hang the single-threaded simulation instead of
// being reported.  VerifLoopsMax is the longest stretch since the harness last reset it.
var (
	VerifLoops     int64
	VerifLoopsMax  int64
	VerifLoopLimit int64
	VerifLoopHook  func()
	verifLoopG     uint64
)

//go:linkname verifGoid runtime.verifGoid
func verifGoid() uint64

// VerifL is the call inserted at the top of every loop body of the instrumented copies.
//
//go:norace
func VerifL() {
	if g := verifGoid(); g != verifLoopG {
		verifLoopG = g
		if VerifLoops > VerifLoopsMax {
			VerifLoopsMax = VerifLoops
		}
		VerifLoops = 0
	}
	VerifLoops++
	if VerifLoops > VerifLoopLimit && VerifLoopLimit > 0 {
		if h := VerifLoopHook; h != nil {
			h()
		}
	}
}
