//go:build verif

package transport

import "net"

// White-box accessors for the simulation harness (/verif).  This file is added
// to the package with `go build -overlay`; it does not exist in the repository.

// VerifSession describes the cryptographic state of an established session.
type VerifSession struct {
	ID       [4]byte
	C2S, S2C [KeyLen]byte
	Remote   *net.UDPAddr
	Count    uint64
	Closed   bool
	Hidden   bool
}

func snapshotSession(ss *SessionState) (VerifSession, bool) {
	if ss == nil {
		return VerifSession{}, false
	}
	ss.m.Lock()
	defer ss.m.Unlock()
	v := VerifSession{ID: ss.sessionID, C2S: ss.clientToServerKey, S2C: ss.serverToClientKey, Count: ss.count,
		Closed: ss.handleState == closed, Hidden: ss.isHiddenHS}
	if ss.remoteAddr != nil {
		a := *ss.remoteAddr
		v.Remote = &a
	}
	return v, true
}

// VerifSession returns the client's session state after a completed handshake.
func (c *Client) VerifSession() (VerifSession, bool) {
	if c.state.Load() != clientStateOpen {
		return VerifSession{}, false
	}
	return snapshotSession(c.ss)
}

// VerifSession returns the session state behind a server handle.
func (h *Handle) VerifSession() (VerifSession, bool) { return snapshotSession(h.ss) }

// VerifTables returns the sizes of the server's handshake and session tables.
func (s *Server) VerifTables() (handshakes, sessions int) {
	s.m.RLock()
	defer s.m.RUnlock()
	return len(s.handshakes), len(s.sessions)
}

// VerifSessions returns a snapshot of every session in the server's table
// (including sessions whose handshake has not finished: keys are zero then).
func (s *Server) VerifSessions() []VerifSession {
	s.m.RLock()
	list := make([]*SessionState, 0, len(s.sessions))
	for _, ss := range s.sessions {
		list = append(list, ss)
	}
	s.m.RUnlock()
	out := make([]VerifSession, 0, len(list))
	for _, ss := range list {
		if v, ok := snapshotSession(ss); ok {
			out = append(out, v)
		}
	}
	return out
}

// VerifEstablished reports whether the session with this id has a handle
// (i.e. finishHandshake ran for it).
func (s *Server) VerifEstablished(id [4]byte) bool {
	s.m.RLock()
	ss := s.sessions[SessionID(id)]
	s.m.RUnlock()
	if ss == nil {
		return false
	}
	ss.m.Lock()
	defer ss.m.Unlock()
	return ss.handle != nil
}
