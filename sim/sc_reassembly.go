package sim

import (
	"bytes"
	"fmt"

	"hop.computer/hop/tubes"
)

// C08 (reassembly core) — the real tubes receiver fed, in isolation, with the
// arrival sequences a simulated link produces: permutations, duplicates,
// frames far outside the window, frame numbers around the 2^32 wrap.

func init() {
	Register(&Scenario{Name: "tube-reassembly", Property: "C08", Fn: scReassembly})
}

func scReassembly(r *Run) {
	nSeq := 200
	if r.Tier == "thorough" {
		nSeq = 1000
	}
	totalArr := 0
	dig := uint64(0)
	for s := 0; s < nSeq; s++ {
		key := "seq"
		var start uint64
		switch r.Intn(key, 5) {
		case 0:
			start = 1
		case 1:
			start = 1<<32 - uint64(1+r.Intn(key, 12)) // the stream crosses the 32-bit wrap
		case 2:
			start = 1<<31 - uint64(r.Intn(key, 12))
		case 3:
			start = 3<<32 + uint64(r.Intn(key, 1<<20))
		default:
			start = 1 + uint64(r.Intn(key, 1<<30))
		}
		n := 1 + r.Intn(key, 12)
		withFin := r.Intn(key, 2) == 0
		frames := make([][]byte, n)
		var stream []byte
		for i := range frames {
			frames[i] = append([]byte{byte(i), byte(s)}, r.Bytes(key, 1+r.Intn(key, 20))...)
			stream = append(stream, frames[i]...)
		}
		rv := tubes.VerifNewReceiver(start)
		// arrival order: a drawn schedule with reordering depth, duplicates and foreign frames
		type arr struct {
			idx  int // 0..n-1 data, n = FIN, -1 = foreign
			no   uint32
			data []byte
		}
		var sched []arr
		for i := 0; i <= n; i++ {
			if i == n && !withFin {
				break
			}
			a := arr{idx: i, no: uint32(start + uint64(i))}
			if i < n {
				a.data = frames[i]
			}
			sched = append(sched, a)
			for r.Intn(key, 4) == 0 { // duplicates
				sched = append(sched, a)
				r.CountFault("reassembly/duplicate-frame", 1)
			}
		}
		for i := len(sched) - 1; i > 0; i-- { // reorder
			if r.Intn(key, 3) != 0 {
				j := r.Intn(key, i+1)
				sched[i], sched[j] = sched[j], sched[i]
			}
		}
		// a duplicating network behind a gap: the first frame is late, everything after it arrives again and
		// again (the reassembly queue parks every copy), then the missing frame comes
		if n >= 2 && r.Intn(key, 25) == 0 {
			first := arr{idx: 0, no: uint32(start), data: frames[0]}
			var flood []arr
			copies := 700 + r.Intn(key, 700)
			for k := 0; k < copies; k++ {
				i := 1 + r.Intn(key, n-1)
				flood = append(flood, arr{idx: i, no: uint32(start + uint64(i)), data: frames[i]})
			}
			if withFin {
				flood = append(flood, arr{idx: n, no: uint32(start + uint64(n))})
			}
			for i := 1; i < n; i++ { // every frame at least once
				flood = append(flood, arr{idx: i, no: uint32(start + uint64(i)), data: frames[i]})
			}
			sched = append(flood, first)
			r.CountFault("reassembly/duplicate-flood-behind-gap", 1)
		}
		for k := 0; k < r.Intn(key, 4); k++ { // frames far outside the window, or long delivered
			var no uint64
			switch r.Intn(key, 4) {
			case 0:
				no = start + 1001 + uint64(r.Intn(key, 5000))
			case 1:
				no = start + 1<<31 + uint64(r.Intn(key, 100))
			case 2:
				no = start - 1 - uint64(r.Intn(key, 2000))
			default:
				no = start + 999 + uint64(r.Intn(key, 4)) // window edge
			}
			pos := r.Intn(key, len(sched)+1)
			f := arr{idx: -1, no: uint32(no), data: []byte("FOREIGN-FRAME")}
			sched = append(sched[:pos], append([]arr{f}, sched[pos:]...)...)
			r.CountFault("reassembly/out-of-window-frame", 1)
		}
		have := make([]bool, n+1)
		var got []byte
		finSeen := false
		for step, a := range sched {
			totalArr++
			dig = splitmix(dig ^ uint64(a.no)<<8 ^ uint64(a.idx+1))
			fin, rerr := rv.Receive(a.no, a.data, a.idx == n)
			if rerr != nil && a.idx >= 0 {
				r.Probe("reassembly/own-frame-refused")
			}
			if a.idx >= 0 {
				have[a.idx] = true
			}
			got = append(got, rv.Drain()...)
			// model: the assembled bytes are the concatenation of the longest arrived prefix
			m := 0
			for m < n && have[m] {
				m++
			}
			var want []byte
			for i := 0; i < m; i++ {
				want = append(want, frames[i]...)
			}
			if !bytes.Equal(got, want) {
				r.Violate("C08/reassembly-wrong-bytes", "sequence %d (first frame number %d, %d frames), arrival %d (frame number %d, index %d): assembled %d bytes, the in-order prefix of what arrived has %d bytes; streams differ", s, start, n, step, a.no, a.idx, len(got), len(want))
				return
			}
			wantFin := withFin && m == n && have[n]
			if fin && !wantFin {
				r.Violate("C08/reassembly-early-fin", "sequence %d (start %d): end-of-stream processed at arrival %d although only %d of %d data frames had arrived", s, start, step, m, n)
				return
			}
			if fin {
				finSeen = true
			}
			if wantFin && !finSeen {
				r.Violate("C08/reassembly-fin-not-reported", "sequence %d (start %d): all %d data frames and the FIN have arrived, end-of-stream was not processed", s, start, n)
				return
			}
		}
		if !bytes.Equal(got, stream) {
			r.Violate("C08/reassembly-incomplete", "sequence %d (start %d): every frame arrived, %d of %d bytes assembled", s, start, len(got), len(stream))
			return
		}
	}
	r.Obligation(int64(totalArr))
	r.Logf("sequences=%d arrivals=%d digest=%016x", nSeq, totalArr, dig)
	r.Sample = append(r.Sample, fmt.Sprintf("sequences=%d arrivals=%d", nSeq, totalArr))
}
