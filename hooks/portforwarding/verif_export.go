//go:build verif

package portforwarding

import (
	"io"
	"net"
)

// VerifReadPacket exposes the port-forward control request reader to the
// simulation harness (file added by -overlay; not part of the repository).
func VerifReadPacket(r io.Reader) (net.Addr, byte, error) { return readPacket(r) }
