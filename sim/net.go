package sim

import (
	"container/heap"
	"errors"
	"fmt"
	"net"
	"os"
	"sync"
	"sync/atomic"
	"syscall"
	"testing/synctest"
	"time"

	"hop.computer/hop/transport"
)

// Dgram is one datagram on the simulated wire.
type Dgram struct {
	ID     uint64       // unique id of the original transmission (>= 1<<40 for attacker-made datagrams, which also carry Mut)
	Src    *net.UDPAddr // address of the sending endpoint
	Dst    *net.UDPAddr
	Data   []byte
	SentAt time.Duration

	From  *net.UDPAddr // source address the receiver will see
	Mut   string       // "" = verbatim copy of the original; otherwise what was done to it
	Copy  int          // 0 = first delivery, >0 = duplicate / replay / reflection
	Cause *Dgram       // step mode: the delivery this transmission reacted to
	Tag   string       // free for scenarios (attacker label, ...)
	SrcEP *Endpoint    // the endpoint that made the transmission (nil for attacker-made datagrams)
	Seq   uint64       // creation order of endpoint transmissions, assigned in the writing goroutine (0 for attacker-made)
}

func (d *Dgram) clone() *Dgram {
	c := *d
	c.Data = append([]byte(nil), d.Data...)
	return &c
}

// Verbatim reports whether this delivery is an unmodified copy of a datagram
// that an endpoint of the system really sent.
func (d *Dgram) Verbatim() bool { return d.ID != 0 && d.Mut == "" }

type netEvent struct {
	at  time.Duration
	seq uint64
	d   *Dgram
	fn  func()
}

type eventHeap []*netEvent

func (h eventHeap) Len() int { return len(h) }
func (h eventHeap) Less(i, j int) bool {
	if h[i].at != h[j].at {
		return h[i].at < h[j].at
	}
	return h[i].seq < h[j].seq
}
func (h eventHeap) Swap(i, j int) { h[i], h[j] = h[j], h[i] }
func (h *eventHeap) Push(x any)   { *h = append(*h, x.(*netEvent)) }
func (h *eventHeap) Pop() any {
	o := *h
	n := len(o)
	x := o[n-1]
	o[n-1] = nil
	*h = o[:n-1]
	return x
}

// NetCfg is the generic datagram-fault configuration of a run (swarm-drawn).
type NetCfg struct {
	Latency   time.Duration
	Jitter    time.Duration
	PDrop     float64
	PBurst    float64 // probability to enter a loss burst on a link
	BurstLen  int
	PDup      float64
	PLongDel  float64 // extra delay of up to LongDelay (reordering across many packets)
	LongDelay time.Duration
	PFlip     float64
	PTrunc    float64
	PExtend   float64
	PReflect  float64
	PReplay   float64 // verbatim copy delivered again much later
	ReplayMax time.Duration
	// FaultsUntil: simulated instant after which the network is faithful (0 = always faulty)
	FaultsUntil time.Duration
}

// Net is the simulated datagram network: an actor goroutine that owns every
// delivery decision.  Endpoints hand datagrams to it over a channel, so
// goroutines of the system under test share no lock with each other here.
type Net struct {
	dseq atomic.Uint64 // creation counter of endpoint transmissions (Dgram.Seq)
	r    *Run
	Cfg  NetCfg

	out  chan *Dgram
	poke chan struct{}
	stop chan struct{}
	done chan struct{}

	mu     sync.Mutex
	eps    map[string]*Endpoint
	events eventHeap
	seq    uint64
	nextID uint64
	injID  uint64
	burst  map[string]int
	// Blocked, when set, is consulted for every transmission (partitions, outages).
	Blocked func(src, dst *net.UDPAddr, now time.Duration) bool

	// Tap sees every transmission first (dispatcher goroutine).  Returning
	// false consumes the datagram (the tap delivers what it wants itself).
	Tap func(d *Dgram) bool
	// OnSend observes every datagram put on the wire by an endpoint.
	OnSend func(d *Dgram)
	// OnDeliver observes every delivery (after faults) just before the inbox.
	OnDeliver func(d *Dgram, ep *Endpoint)
	// Step mode: after each delivery wait for quiescence, then call AfterStep.
	Step      bool
	AfterStep func(d *Dgram)
	cause     *Dgram

	// Describe renders a datagram for the event log (default: transport message type).
	Describe func(b []byte) string

	Quiet bool // do not log every datagram (cheap scenarios log their own events)

	Sent, Delivered, Dropped int64
	// Digest folds every datagram event (also in Quiet mode) so that the
	// run hash distinguishes network schedules.
	Digest uint64
}

func (n *Net) fold(kind byte, d *Dgram) {
	h := n.Digest ^ uint64(kind) ^ d.ID<<8 ^ uint64(len(d.Data))<<40 ^ uint64(n.r.Now())
	n.Digest = splitmix(h)
}

// NewNet creates the network and starts its dispatcher inside the bubble.
func NewNet(r *Run) *Net {
	n := &Net{r: r, out: make(chan *Dgram, 1<<14), poke: make(chan struct{}, 1),
		stop: make(chan struct{}), done: make(chan struct{}),
		eps: map[string]*Endpoint{}, burst: map[string]int{}}
	n.Cfg.Latency = time.Millisecond
	r.Go(n.loop)
	return n
}

// Stop terminates the dispatcher.
func (n *Net) Stop() {
	select {
	case <-n.stop:
		<-n.done
		return
	default:
		close(n.stop)
	}
	<-n.done
	n.r.Logf("net sent=%d delivered=%d dropped=%d digest=%016x", n.Sent, n.Delivered, n.Dropped, n.Digest)
}

func (n *Net) faulty() bool {
	return n.Cfg.FaultsUntil == 0 || n.r.Now() < n.Cfg.FaultsUntil
}

func (n *Net) schedule(at time.Duration, d *Dgram, fn func()) {
	n.mu.Lock()
	n.seq++
	heap.Push(&n.events, &netEvent{at: at, seq: n.seq, d: d, fn: fn})
	n.mu.Unlock()
	select {
	case n.poke <- struct{}{}:
	default:
	}
}

// Inject delivers an attacker-made datagram to dst after delay, with from as
// the apparent source address.
func (n *Net) Inject(from, dst *net.UDPAddr, data []byte, delay time.Duration, tag string) {
	d := &Dgram{Src: from, From: from, Dst: dst, Data: append([]byte(nil), data...), SentAt: n.r.Now(), Mut: "attacker", Tag: tag}
	n.mu.Lock()
	n.Digest = splitmix(n.Digest ^ hashBytes(data) ^ uint64(n.r.Now()))
	n.injID++
	d.ID = 1<<40 + n.injID // unique, outside the id space of real transmissions; Mut marks it as attacker-made
	n.mu.Unlock()
	n.schedule(n.r.Now()+delay, d, nil)
}

// Redeliver delivers a (possibly modified) copy of a captured datagram.
func (n *Net) Redeliver(d *Dgram, delay time.Duration) {
	n.schedule(n.r.Now()+delay, d, nil)
}

// At runs fn on the dispatcher goroutine at the given simulated offset from now.
func (n *Net) At(delay time.Duration, fn func()) { n.schedule(n.r.Now()+delay, nil, fn) }

func hashBytes(b []byte) uint64 {
	h := uint64(0xcbf29ce484222325)
	for _, c := range b {
		h ^= uint64(c)
		h *= 0x100000001b3
	}
	return h
}

func typeName(b []byte) string {
	if len(b) == 0 {
		return "empty"
	}
	switch b[0] {
	case 0x01:
		return "CH"
	case 0x02:
		return "SH"
	case 0x03:
		return "CA"
	case 0x04:
		return "SA"
	case 0x05:
		return "CAuth"
	case 0x08:
		return "CRH"
	case 0x09:
		return "SRH"
	case 0x10:
		return "T"
	case 0x80:
		return "CTL"
	}
	return fmt.Sprintf("%02x", b[0])
}

func (n *Net) describe(b []byte) string {
	if n.Describe != nil {
		return n.Describe(b)
	}
	return typeName(b)
}

// FrameDesc renders a tube frame header.
func FrameDesc(b []byte) string {
	if len(b) >= 10 && len(b) < 12 && b[1]&3 != 0 {
		b = append(append([]byte(nil), b...), 0, 0)
	}
	if len(b) < 12 {
		return fmt.Sprintf("short-frame(%d)", len(b))
	}
	fl := ""
	for i, n := range []string{"REQ", "RESP", "REL", "ACK", "FIN", "RTR"} {
		if b[1]&(1<<i) != 0 {
			fl += n + "|"
		}
	}
	dl := int(b[2])<<8 | int(b[3])
	if b[1]&3 != 0 {
		return fmt.Sprintf("tube%d[%s] init type=%d dl=%d", b[0], fl, b[4], dl)
	}
	ack := uint32(b[4])<<24 | uint32(b[5])<<16 | uint32(b[6])<<8 | uint32(b[7])
	fno := uint32(b[8])<<24 | uint32(b[9])<<16 | uint32(b[10])<<8 | uint32(b[11])
	return fmt.Sprintf("tube%d[%s] ack=%d frame=%d dl=%d", b[0], fl, ack, fno, dl)
}

// process applies the fault model to one transmission (dispatcher goroutine).
func (n *Net) process(d *Dgram) {
	r := n.r
	n.nextID++
	d.ID = n.nextID
	if d.From == nil {
		d.From = d.Src
	}
	d.Cause = n.cause
	n.Sent++
	n.fold('t', d)
	if !n.Quiet || netLog {
		r.Logf("tx #%d %s>%s %s len=%d", d.ID, d.Src, d.Dst, n.describe(d.Data), len(d.Data))
	}
	if n.OnSend != nil {
		n.OnSend(d)
	}
	if n.Tap != nil && !n.Tap(d) {
		return
	}
	now := r.Now()
	if n.Blocked != nil && n.Blocked(d.Src, d.Dst, now) {
		n.Dropped++
		r.CountFault("outage-drop", 1)
		if !n.Quiet || netLog {
			r.Logf("blocked #%d", d.ID)
		}
		return
	}
	c := &n.Cfg
	link := d.Src.String() + ">" + d.Dst.String()
	delay := c.Latency
	if !n.faulty() {
		n.schedule(now+delay, d, nil)
		return
	}
	if c.Jitter > 0 {
		delay += time.Duration(r.U64("jit:"+link) % uint64(c.Jitter))
	}
	// burst loss
	if b := n.burst[link]; b > 0 {
		n.burst[link] = b - 1
		n.Dropped++
		r.CountFault("burst-drop", 1)
		if !n.Quiet || netLog {
			r.Logf("drop(burst) #%d", d.ID)
		}
		return
	}
	if c.PBurst > 0 && r.Fault("burst", link, c.PBurst) {
		n.burst[link] = 1 + r.Intn("burstlen:"+link, c.BurstLen)
	}
	if r.Fault("drop", link, c.PDrop) {
		n.Dropped++
		if !n.Quiet || netLog {
			r.Logf("drop #%d", d.ID)
		}
		return
	}
	if r.Fault("longdelay", link, c.PLongDel) {
		delay += time.Duration(r.U64("ld:"+link) % uint64(c.LongDelay+1))
	}
	out := d
	if k := r.Pick("flip", link, c.PFlip, 6); k > 0 && len(d.Data) > 0 {
		out = d.clone()
		off := flipOffset(r, link, k, len(out.Data))
		bit := byte(1) << (r.U64("flipbit:"+link) % 8)
		out.Data[off] ^= bit
		out.Mut = fmt.Sprintf("flip@%d^%02x", off, bit)
	} else if r.Fault("trunc", link, c.PTrunc) && len(d.Data) > 0 {
		out = d.clone()
		l := truncLen(r, link, len(out.Data))
		out.Data = out.Data[:l]
		out.Mut = fmt.Sprintf("trunc@%d", l)
	} else if r.Fault("extend", link, c.PExtend) {
		out = d.clone()
		extra := 1 + r.Intn("extlen:"+link, 64)
		out.Data = append(out.Data, r.Bytes("extbytes:"+link, extra)...)
		out.Mut = fmt.Sprintf("extend+%d", extra)
	}
	if out.Mut != "" && !n.Quiet {
		r.Logf("mutate #%d %s", d.ID, out.Mut)
	}
	n.schedule(now+delay, out, nil)
	if k := r.Pick("dup", link, c.PDup, 3); k > 0 {
		for i := 1; i <= k; i++ {
			cp := out.clone()
			cp.Copy = i
			extra := time.Duration(r.U64("dupdelay:"+link) % uint64(4*(c.Latency+c.Jitter)+1))
			n.schedule(now+delay+extra, cp, nil)
		}
	}
	if r.Fault("reflect", link, c.PReflect) {
		cp := d.clone()
		cp.Copy = 100
		cp.Mut = "reflected"
		cp.From = d.Dst
		cp.Dst = d.Src
		n.schedule(now+delay, cp, nil)
	}
	if r.Fault("replay", link, c.PReplay) {
		cp := d.clone()
		cp.Copy = 200
		late := time.Duration(r.U64("replaydelay:"+link) % uint64(c.ReplayMax+1))
		n.schedule(now+delay+late, cp, nil)
	}
}

// flipOffset chooses a byte offset biased to hit every header region.
func flipOffset(r *Run, link string, region, n int) int {
	lo, hi := 0, n
	switch region {
	case 1: // type byte
		lo, hi = 0, 1
	case 2: // reserved / length bytes
		lo, hi = 1, 4
	case 3: // session id (or first key bytes)
		lo, hi = 4, 8
	case 4: // counter
		lo, hi = 8, 16
	case 5: // trailing tag / mac
		lo, hi = n-32, n
	default: // anywhere
	}
	if lo < 0 {
		lo = 0
	}
	if hi > n {
		hi = n
	}
	if lo >= hi {
		lo, hi = 0, n
	}
	return lo + r.Intn("flipoff:"+link, hi-lo)
}

func truncLen(r *Run, link string, n int) int {
	switch r.Intn("truncmode:"+link, 4) {
	case 0: // very short
		return r.Intn("trunclen:"+link, min(n, 64))
	case 1: // one short
		return n - 1
	case 2: // around the header sizes
		return min(n-1, r.Intn("trunclen:"+link, 49))
	}
	return r.Intn("trunclen:"+link, n)
}

func (n *Net) deliver(d *Dgram) {
	n.mu.Lock()
	ep := n.eps[d.Dst.String()]
	n.mu.Unlock()
	if ep == nil {
		n.Dropped++
		if !n.Quiet || netLog {
			n.r.Logf("noroute #%d >%s", d.ID, d.Dst)
		}
		return
	}
	if n.OnDeliver != nil {
		n.OnDeliver(d, ep)
	}
	select {
	case <-ep.closed:
		n.Dropped++
		return
	default:
	}
	select {
	case ep.inbox <- d:
		n.Delivered++
		n.fold('r', d)
		if !n.Quiet || netLog {
			n.r.Logf("rx #%d.%d %s>%s %s len=%d %s", d.ID, d.Copy, d.From, d.Dst, n.describe(d.Data), len(d.Data), d.Mut)
		}
	default:
		n.Dropped++
		n.r.Probe("inbox-full")
	}
}

func (n *Net) drainOut() {
	for {
		select {
		case d := <-n.out:
			n.process(d)
		default:
			return
		}
	}
}

func (n *Net) loop() {
	defer close(n.done)
	timer := time.NewTimer(time.Hour)
	defer timer.Stop()
	for {
		n.drainOut()
		// deliver everything that is due
		for {
			n.mu.Lock()
			var ev *netEvent
			if len(n.events) > 0 && n.events[0].at <= n.r.Now() {
				ev = heap.Pop(&n.events).(*netEvent)
			}
			n.mu.Unlock()
			if ev == nil {
				break
			}
			if ev.fn != nil {
				ev.fn()
				continue
			}
			n.cause = ev.d
			n.deliver(ev.d)
			if n.Step {
				synctest.Wait()
				n.drainOut()
				if n.AfterStep != nil {
					n.AfterStep(ev.d)
				}
				n.cause = nil
			}
			n.drainOut()
		}
		n.mu.Lock()
		wait := time.Hour
		if len(n.events) > 0 {
			wait = n.events[0].at - n.r.Now()
		}
		n.mu.Unlock()
		if wait <= 0 {
			continue
		}
		timer.Reset(wait)
		select {
		case d := <-n.out:
			n.process(d)
		case <-n.poke:
		case <-timer.C:
		case <-n.stop:
			return
		}
	}
}

// ---------------------------------------------------------------------------
// endpoints

var errClosedConn = &net.OpError{Op: "read", Net: "udp", Err: net.ErrClosed}

type timeoutErr struct{}

func (timeoutErr) Error() string   { return "i/o timeout" }
func (timeoutErr) Timeout() bool   { return true }
func (timeoutErr) Temporary() bool { return true }
func (timeoutErr) Unwrap() error   { return os.ErrDeadlineExceeded }

var errTimeout = &net.OpError{Op: "read", Net: "udp", Err: timeoutErr{}}

// Endpoint is a simulated UDP socket.  It implements transport.UDPLike and,
// when created with a peer, transport.MsgConn.
type Endpoint struct {
	n      *Net
	addr   atomic.Pointer[net.UDPAddr]
	peer   *net.UDPAddr
	inbox  chan *Dgram
	closed chan struct{}
	once   sync.Once

	dmu     sync.Mutex
	dlCh    chan struct{}
	dlChg   chan struct{}
	dlTimer *time.Timer

	// LastFrom is the source of the last datagram read (harness use only).
	Name string
	// WriteStall, when set before traffic starts, is asked after every transmission how long the writing
	// goroutine is held up inside the socket write (fault: blocking send).
	WriteStall func() time.Duration
	// WriteErr, when set, may refuse a transmission to dst with an error.
	WriteErr func(dst *net.UDPAddr) error
	// OnCreate, when set, sees every datagram this endpoint transmits at the moment it is made, in the goroutine
	// of the writer (OnSend of the network runs later, in the network's goroutine).
	OnCreate func(d *Dgram)
	// DeadlineStall, when set, is asked on every deadline change how long the calling goroutine is held
	// inside the call (a descheduled thread / stalled node: the deadline itself is set at once).
	DeadlineStall func() time.Duration
	// CloseErr, when set, is what the first Close returns (the endpoint is closed all the same).
	CloseErr error
}

// Addr builds a simulated address.
func Addr(host byte, port int) *net.UDPAddr {
	return &net.UDPAddr{IP: net.IPv4(10, 0, 0, host).To4(), Port: port}
}

// Dseq returns the number of endpoint transmissions made so far: a datagram created from now on has a larger Seq.
func (n *Net) Dseq() uint64 { return n.dseq.Load() }

// Listen creates an endpoint bound to addr.  peer may be nil.
func (n *Net) Listen(name string, addr, peer *net.UDPAddr) *Endpoint {
	ep := &Endpoint{n: n, peer: peer, inbox: make(chan *Dgram, 8192), closed: make(chan struct{}), dlChg: make(chan struct{}), Name: name}
	ep.addr.Store(addr)
	n.mu.Lock()
	n.eps[addr.String()] = ep
	n.mu.Unlock()
	return ep
}

// Rehome moves the endpoint to a new address (roaming).  If keepOld is false,
// datagrams to the old address are no longer routed.
func (n *Net) Rehome(ep *Endpoint, addr *net.UDPAddr, keepOld bool) {
	n.mu.Lock()
	old := ep.addr.Load()
	if !keepOld {
		delete(n.eps, old.String())
	}
	n.eps[addr.String()] = ep
	n.mu.Unlock()
	ep.addr.Store(addr)
}

// Unroute removes the route for addr.
func (n *Net) Unroute(addr *net.UDPAddr) {
	n.mu.Lock()
	delete(n.eps, addr.String())
	n.mu.Unlock()
}

// ReadMsgUDP implements transport.UDPLike.
func (ep *Endpoint) ReadMsgUDP(b, oob []byte) (int, int, int, *net.UDPAddr, error) {
	for {
		select {
		case <-ep.closed:
			return 0, 0, 0, nil, errClosedConn
		default:
		}
		ep.dmu.Lock()
		dch, chg := ep.dlCh, ep.dlChg
		ep.dmu.Unlock()
		if dch != nil {
			select {
			case <-dch:
				return 0, 0, 0, nil, errTimeout
			default:
			}
		}
		select {
		case d := <-ep.inbox:
			n := copy(b, d.Data)
			from := *d.From
			return n, 0, 0, &from, nil
		case <-ep.closed:
			return 0, 0, 0, nil, errClosedConn
		case <-dch:
			return 0, 0, 0, nil, errTimeout
		case <-chg:
		}
	}
}

// netLog (VERIF_NETLOG=1) logs every datagram also in scenarios that keep the network quiet: a debugging aid
// for replays (it changes the event hash, not the schedule); never used by a check.
var netLog = os.Getenv("VERIF_NETLOG") == "1"

// maxUDPPayload is the largest payload of a UDP datagram over IPv4.
const maxUDPPayload = 65507

// WriteMsgUDP implements transport.UDPLike.
func (ep *Endpoint) WriteMsgUDP(b, oob []byte, addr *net.UDPAddr) (int, int, error) {
	select {
	case <-ep.closed:
		return 0, 0, &net.OpError{Op: "write", Net: "udp", Err: net.ErrClosed}
	default:
	}
	if addr == nil {
		addr = ep.peer
	}
	if addr == nil {
		return 0, 0, &net.OpError{Op: "write", Net: "udp", Err: errors.New("destination address required")}
	}
	if ep.WriteErr != nil {
		if err := ep.WriteErr(addr); err != nil {
			// (fault: sendto fails for this destination: unreachable network, egress filter, port 0)
			return 0, 0, &net.OpError{Op: "write", Net: "udp", Err: err}
		}
	}
	if len(b) > maxUDPPayload {
		// what a real UDP socket answers (EMSGSIZE)
		return 0, 0, &net.OpError{Op: "write", Net: "udp", Err: syscall.EMSGSIZE}
	}
	dst := *addr
	d := &Dgram{Src: ep.addr.Load(), Dst: &dst, Data: append([]byte(nil), b...), SentAt: ep.n.r.Now(), SrcEP: ep, Seq: ep.n.dseq.Add(1)}
	if ep.OnCreate != nil {
		ep.OnCreate(d) // (synchronously, in the goroutine that writes)
	}
	select {
	case ep.n.out <- d:
	case <-ep.n.stop:
	}
	// a socket write that blocks (full send buffer, stalled interface): the datagram is on its way with
	// the destination it was given, the caller is held up
	if ep.WriteStall != nil {
		if dly := ep.WriteStall(); dly > 0 {
			time.Sleep(dly)
		}
	}
	return len(b), 0, nil
}

// ReadMsg implements transport.MsgConn.
func (ep *Endpoint) ReadMsg(b []byte) (int, error) {
	n, _, _, _, err := ep.ReadMsgUDP(b, nil)
	return n, err
}

// WriteMsg implements transport.MsgConn.
func (ep *Endpoint) WriteMsg(b []byte) error {
	// in the MsgConn role the endpoint stands for a transport session, which refuses messages longer than
	// one packet can carry
	if len(b) > transport.MaxPlaintextSize {
		return transport.ErrBufOverflow
	}
	_, _, err := ep.WriteMsgUDP(b, nil, nil)
	return err
}

func (ep *Endpoint) Read(b []byte) (int, error)  { return ep.ReadMsg(b) }
func (ep *Endpoint) Write(b []byte) (int, error) { return len(b), ep.WriteMsg(b) }

// Close implements net.Conn.
func (ep *Endpoint) Close() error {
	err := error(&net.OpError{Op: "close", Net: "udp", Err: net.ErrClosed})
	ep.once.Do(func() {
		close(ep.closed)
		err = ep.CloseErr // (fault: the socket is closed, and close(2) reports an error)
	})
	return err
}

// IsClosed reports whether Close was called.
func (ep *Endpoint) IsClosed() bool {
	select {
	case <-ep.closed:
		return true
	default:
		return false
	}
}

func (ep *Endpoint) LocalAddr() net.Addr { return ep.addr.Load() }
func (ep *Endpoint) RemoteAddr() net.Addr {
	if ep.peer == nil {
		return (*net.UDPAddr)(nil)
	}
	return ep.peer
}

func (ep *Endpoint) SetDeadline(t time.Time) error { return ep.SetReadDeadline(t) }

// SetReadDeadline implements net.Conn with the simulated clock.
func (ep *Endpoint) SetReadDeadline(t time.Time) error {
	select {
	case <-ep.closed:
		return &net.OpError{Op: "set", Net: "udp", Err: net.ErrClosed}
	default:
	}
	if ep.DeadlineStall != nil {
		defer func() {
			if dly := ep.DeadlineStall(); dly > 0 {
				time.Sleep(dly)
			}
		}()
	}
	ep.dmu.Lock()
	defer ep.dmu.Unlock()
	if ep.dlTimer != nil {
		ep.dlTimer.Stop()
		ep.dlTimer = nil
	}
	close(ep.dlChg)
	ep.dlChg = make(chan struct{})
	switch {
	case t.IsZero():
		ep.dlCh = nil
	case !t.After(time.Now()):
		ch := make(chan struct{})
		close(ch)
		ep.dlCh = ch
	default:
		ch := make(chan struct{})
		ep.dlCh = ch
		ep.dlTimer = time.AfterFunc(time.Until(t), func() { close(ch) })
	}
	return nil
}

func (ep *Endpoint) SetWriteDeadline(t time.Time) error { return nil }

// Pending returns the number of datagrams waiting in the inbox.
func (ep *Endpoint) Pending() int { return len(ep.inbox) }
