//go:build verif

package transport

import "time"

// VerifClientClock, when set, is the clock a client reads for the timestamp of a hidden-mode request (seam
// inserted by the build step into a copy of handshake_pq.go; see VerifClientClockPatched).  It stands for a
// holder of the server's KEM key whose clock is wrong, or who lies about the time.
var VerifClientClock func() int64

func verifClientNow() int64 {
	if f := VerifClientClock; f != nil {
		return f()
	}
	return time.Now().Unix()
}
