package sim

import (
	"bytes"
	"errors"
	"fmt"
	"io"
	"os"
	"sync"
	"time"

	"hop.computer/hop/certs"
	"hop.computer/hop/transport"
)

// C03 — transport channel: authentic, at-most-once, complete, confidential.

func init() {
	Register(&Scenario{Name: "transport-channel", Property: "C03", Fn: scTransportChannel})
}

var (
	magicPayload = []byte{0xC0, 'N', 'F', '1', 'D', '3', 'N', 'T'}
	magicName    = "c0nf1dential-name"
)

type msgKey struct {
	n      int
	h1, h2 uint64
}

func keyOf(b []byte) msgKey {
	h1 := uint64(0xcbf29ce484222325)
	h2 := uint64(0x9E3779B97F4A7C15)
	for _, c := range b {
		h1 ^= uint64(c)
		h1 *= 0x100000001b3
		h2 = (h2 ^ uint64(c)) * 0xff51afd7ed558ccd
		h2 ^= h2 >> 29
	}
	return msgKey{len(b), h1, h2}
}

// chanSide tracks one direction of one session.
type chanSide struct {
	mu    sync.Mutex
	name  string
	sent  map[msgKey]int // written and not yet received
	nSent int
	nRecv int
	// stream mode (fault-free configuration): a single writer uses Write with
	// sizes beyond one packet; the reader's concatenation must equal the writer's.
	stream     bool
	wroteBytes []byte
	gotBytes   []byte
}

func (s *chanSide) wrote(b []byte) {
	s.mu.Lock()
	s.sent[keyOf(b)]++
	s.nSent++
	s.mu.Unlock()
}

func (s *chanSide) got(r *Run, b []byte) {
	if s.stream {
		s.mu.Lock()
		s.gotBytes = append(s.gotBytes, b...)
		s.nRecv++
		s.mu.Unlock()
		return
	}
	k := keyOf(b)
	s.mu.Lock()
	c := s.sent[k]
	if c > 0 {
		s.sent[k] = c - 1
	}
	s.nRecv++
	s.mu.Unlock()
	r.Obligation(1)
	if c <= 0 {
		head := b
		if len(head) > 24 {
			head = head[:24]
		}
		r.Violate("C03/unauthentic-or-duplicate-delivery", "%s: reader got a %d-byte message (%x…) that the peer did not write on this session and direction, or got it more often than it was written", s.name, len(b), head)
	}
}

// makePayload builds a message of exactly n bytes: a unique header when it
// fits, then the confidentiality magic repeated.
func makePayload(r *Run, dir byte, writer, seq, n int) []byte {
	b := make([]byte, n)
	for i := 0; i+8 <= n; i += 8 {
		copy(b[i:], magicPayload)
	}
	if n >= 16 {
		b[0], b[1] = dir, byte(writer)
		b[2], b[3], b[4], b[5] = byte(seq>>24), byte(seq>>16), byte(seq>>8), byte(seq)
		copy(b[8:16], r.Bytes("marker", 8))
	} else {
		copy(b, r.Bytes("tiny", n))
	}
	return b
}

func drawMsgSize(r *Run, key string) int {
	max := transport.MaxPlaintextSize
	switch r.Intn(key, 12) {
	case 0:
		return 0
	case 1:
		return 1 + r.Intn(key, 15)
	case 2:
		return max
	case 3:
		return max - 1 - r.Intn(key, 3)
	case 4, 5:
		return 1000 + r.Intn(key, 30000)
	default:
		return 16 + r.Intn(key, 600)
	}
}

func scTransportChannel(r *Run) {
	n := NewNet(r)
	defer n.Stop()
	hidden := r.Intn("cfg", 3) == 0
	faultFree := r.Intn("cfg", 4) == 0
	nClients := 1 + r.Intn("cfg", 2)
	r.SetCfg("hidden", hidden)
	r.SetCfg("faultfree", faultFree)
	r.SetCfg("clients", nClients)

	pki := NewPKI("ca")
	srv := StartServer(r, n, ServerOpts{PKI: pki, Name: magicName, Hidden: hidden, HSTimeout: 3 * time.Second})
	secrets := [][]byte{magicPayload, []byte(magicName), append([]byte(nil), srv.Key.Public[:]...)}

	// (d) confidentiality: scan everything the endpoints put on the wire
	var genuinePkts []*Dgram
	var handshakePkts []*Dgram // the clients' own handshake datagrams (the network may deliver late duplicates of them)
	lateHandshakeDup := false
	n.OnSend = func(d *Dgram) {
		if len(d.Data) > 0 && (d.Data[0] == 0x01 || d.Data[0] == 0x03 || d.Data[0] == 0x05 || d.Data[0] == 0x08) && len(handshakePkts) < 16 {
			handshakePkts = append(handshakePkts, d.clone())
		}
		if len(d.Data) >= 48 && (d.Data[0] == 0x10 || d.Data[0] == 0x80) && len(genuinePkts) < 300 {
			genuinePkts = append(genuinePkts, d.clone())
		}
		for i, s := range secrets {
			if bytes.Contains(d.Data, s) {
				r.Violate("C03/plaintext-on-wire", "datagram #%d (%s, %d bytes) %s>%s contains secret #%d (%q…) in clear", d.ID, typeName(d.Data), len(d.Data), d.Src, d.Dst, i, s[:min(8, len(s))])
			}
		}
		r.Obligation(1)
	}

	type sess struct {
		idx int
		tc  *TClient
		h   *transport.Handle
		c2s *chanSide
		s2c *chanSide
	}
	sessions := []*sess{}
	for i := 0; i < nClients; i++ {
		key := newX25519()
		leaf := SelfSigned(key.Public, certs.RawStringName(magicName+"-client"))
		secrets = append(secrets, append([]byte(nil), key.Public[:]...))
		copts := ClientOpts{Addr: Addr(byte(10+i), 4000+i), Hidden: hidden, Key: key, Leaf: leaf}
		if r.Intn("hsbound", 4) == 0 {
			// handshake bounded by an absolute deadline that the session outlives
			dl := time.Now().Add(2 * time.Second)
			both := r.Intn("hsbound", 2) == 0
			copts.Mutate = func(cfg *transport.ClientConfig) {
				cfg.HSDeadline = dl
				cfg.HSTimeout = 0
				if both {
					cfg.HSTimeout = 5 * time.Second
				}
			}
		}
		tc := NewTClient(r, n, srv, copts)
		if !hidden && r.Intn("early-forgery", 3) == 0 {
			// while the handshake is in progress the session exists on the server but has no keys yet; its
			// identifier is in the clear in the ServerAuth.  Packets for it that are sealed correctly under keys
			// anybody can guess arrive before the client's last handshake message.
			caddr := copts.Addr
			n.Tap = func(d *Dgram) bool {
				if len(d.Data) >= 8 && d.Data[0] == 0x04 && d.Dst.String() == caddr.String() {
					var sid [4]byte
					copy(sid[:], d.Data[4:8])
					for q := 0; q < 1+r.Intn("early-forgery", 3); q++ {
						var key [16]byte
						switch r.Intn("early-forgery", 3) {
						case 1:
							for i := range key {
								key[i] = 0xff
							}
						case 2:
							copy(key[:], sid[:])
						}
						mt := transport.MessageTypeTransport
						if r.Intn("early-forgery", 4) == 0 {
							mt = transport.MessageTypeControl
						}
						pkt, err := transport.VerifSealWithKey(sid, uint64(r.Intn("early-forgery", 3)), key, mt, []byte("forged-during-the-handshake"))
						if err != nil {
							continue
						}
						from := caddr
						if r.Intn("early-forgery", 3) == 0 {
							from = Addr(99, 999)
						}
						n.Inject(from, srv.Addr, pkt, time.Duration(r.Intn("early-forgery", 1500))*time.Microsecond, "guessable-key packet during the handshake")
						r.CountFault("guessable-key-packet-during-handshake", 1)
					}
				}
				return true
			}
		}
		err := tc.C.Handshake()
		n.Tap = nil
		if err != nil {
			r.Violate("C03/nofault/handshake-failed", "honest handshake on a faithful network failed: %v", err)
			return
		}
		h, err := srv.Srv.AcceptTimeout(10 * time.Second)
		if err != nil {
			r.Violate("C03/nofault/accept-failed", "server did not offer the connection of an honest client: %v", err)
			return
		}
		sessions = append(sessions, &sess{idx: i, tc: tc, h: h,
			c2s: &chanSide{name: fmt.Sprintf("s%d c2s", i), sent: map[msgKey]int{}},
			s2c: &chanSide{name: fmt.Sprintf("s%d s2c", i), sent: map[msgKey]int{}}})
	}
	r.Logf("established %d session(s) hidden=%v", len(sessions), hidden)
	// long-lived sessions: the packet counters of some directions are already large
	for _, s := range sessions {
		if r.Intn("ctr", 5) == 0 {
			bases := []uint64{1<<32 - 1 - uint64(r.Intn("ctr", 300)), 1<<31 - uint64(r.Intn("ctr", 300)), 1<<40 + r.U64("ctr")%(1<<20), 1<<63 - uint64(r.Intn("ctr", 300))}
			s.tc.C.VerifSetSendCounter(bases[r.Intn("ctr", len(bases))])
			s.h.VerifSetSendCounter(bases[r.Intn("ctr", len(bases))])
			r.CountFault("send-counters-moved-forward", 1)
		}
	}

	// swarm fault configuration (only after establishment: the handshake under faults is C01/C02/C10)
	storm := time.Duration(200+r.Intn("cfg", 3000)) * time.Millisecond
	if !faultFree {
		c := &n.Cfg
		c.Latency = time.Duration(1+r.Intn("cfg", 20)) * time.Millisecond
		c.Jitter = time.Duration(r.Intn("cfg", 40)) * time.Millisecond
		pick := func(max float64) float64 {
			if r.Intn("cfg", 3) == 0 {
				return 0
			}
			return r.Float("cfg") * max
		}
		c.PDrop, c.PDup, c.PFlip, c.PTrunc = pick(0.3), pick(0.3), pick(0.3), pick(0.2)
		c.PExtend, c.PReflect, c.PReplay = pick(0.2), pick(0.2), pick(0.2)
		c.PLongDel, c.LongDelay = pick(0.1), 2*time.Second
		c.PBurst, c.BurstLen = pick(0.05), 8
		c.ReplayMax = 3 * time.Second
		c.FaultsUntil = r.Now() + storm
		r.SetCfg("net", fmt.Sprintf("%+v", *c))
	}

	var wg sync.WaitGroup
	stopRead := make(chan struct{})
	// readers
	reader := func(name string, rd func([]byte) (int, error), setDL func(time.Time) error, side *chanSide, msgMode bool) {
		defer wg.Done()
		full := make([]byte, 65535)
		buf := full
		// some applications read with a small buffer and retry with a larger one when told that the message
		// does not fit: the held-back message must then come out unchanged, once
		small := 0
		if msgMode && r.Intn("rbuf:"+name, 3) == 0 { // (Read, the stream call, hands out what fits and keeps the rest)
			small = 1 + r.Intn("rbuf:"+name, 300)
			buf = full[:small]
		}
		for {
			select {
			case <-stopRead:
				return
			default:
			}
			setDL(time.Now().Add(200 * time.Millisecond))
			k, err := rd(buf)
			if small > 0 {
				if errors.Is(err, transport.ErrBufOverflow) {
					r.CountFault("reader-buffer-too-short", 1)
					if len(buf) == len(full) {
						r.Violate("C03/held-back-message-grew", "%s: ReadMsg reports that the held-back message does not fit a buffer of %d bytes; no message that large can be written (limit %d)", name, len(full), transport.MaxPlaintextSize)
						return
					}
					grow := 2 * len(buf)
					if r.Intn("rbuf:"+name, 4) == 0 {
						grow = len(buf) + 1 + r.Intn("rbuf:"+name, 64) // (still too short for most messages)
					}
					buf = full[:min(grow, len(full))]
					continue
				}
				if err == nil {
					side.got(r, buf[:k])
					buf = full[:small]
					continue
				}
			}
			if err != nil {
				if errors.Is(err, os.ErrDeadlineExceeded) {
					continue
				}
				if errors.Is(err, io.EOF) {
					r.Violate("C03/session-disturbed", "%s: reader got end-of-stream although nobody closed the session", name)
					return
				}
				r.Violate("C03/read-error", "%s: unexpected read error %v", name, err)
				return
			}
			side.got(r, buf[:k])
		}
	}
	for _, s := range sessions {
		s := s
		wg.Add(2)
		r.Go(func() { reader(s.c2s.name, s.h.ReadMsg, s.h.SetReadDeadline, s.c2s, true) })
		if r.Intn("cfg", 2) == 0 {
			r.Go(func() { reader(s.s2c.name, s.tc.C.ReadMsg, s.tc.C.SetReadDeadline, s.s2c, true) })
		} else {
			r.Go(func() { reader(s.s2c.name, s.tc.C.Read, s.tc.C.SetReadDeadline, s.s2c, false) })
		}
	}

	// writers
	var ww sync.WaitGroup
	bigBudget := 6 // large messages per run (memory)
	for _, s := range sessions {
		for dir := 0; dir < 2; dir++ {
			nw := 1 + r.Intn("cfg", 3)
			if faultFree && r.Intn("cfg", 2) == 0 {
				side, wr := s.c2s, s.tc.C.Write
				if dir == 1 {
					side, wr = s.s2c, s.h.Write
				}
				side.stream = true
				nops := 1 + r.Intn("cfg", 5)
				key := fmt.Sprintf("stream%d.%d", s.idx, dir)
				ww.Add(1)
				r.Go(func() {
					defer ww.Done()
					max := transport.MaxPlaintextSize
					for k := 0; k < nops; k++ {
						if !r.Op(key) {
							continue
						}
						var sz int
						switch r.Intn(key, 8) {
						case 0:
							sz = max + 1
						case 1:
							sz = 2 * max
						case 2:
							sz = 2*max + 1 + r.Intn(key, 5000)
						case 3:
							sz = 3*max + 7
						case 4:
							sz = max
						case 5:
							sz = 0
						default:
							sz = 1 + r.Intn(key, 3000)
						}
						b := makePayload(r, byte(dir), 77, k, sz)
						side.mu.Lock()
						side.wroteBytes = append(side.wroteBytes, b...)
						side.nSent++
						side.mu.Unlock()
						nw, err := wr(b)
						r.Obligation(1)
						if err != nil {
							r.Violate("C03/write-error", "%s: Write(%d bytes) failed on an open session: %v", side.name, sz, err)
							return
						}
						if nw != sz {
							r.Violate("C03/nofault/write-short-count", "%s: Write of %d bytes returned n=%d with a nil error", side.name, sz, nw)
						}
						time.Sleep(time.Duration(r.Intn(key, 30)) * time.Millisecond)
					}
				})
				continue
			}
			for w := 0; w < nw; w++ {
				s, dir, w := s, dir, w
				nops := 1 + r.Intn("cfg", 25)
				ww.Add(1)
				r.Go(func() {
					defer ww.Done()
					key := fmt.Sprintf("w%d.%d.%d", s.idx, dir, w)
					side, wr := s.c2s, s.tc.C.WriteMsg
					if dir == 1 {
						side, wr = s.s2c, s.h.WriteMsg
					}
					for k := 0; k < nops; k++ {
						if !r.Op(key) {
							continue
						}
						sz := drawMsgSize(r, key)
						if sz > 2000 {
							if bigBudget <= 0 {
								sz = 64
							} else {
								bigBudget--
							}
						}
						b := makePayload(r, byte(dir), w, k, sz)
						side.wrote(b)
						if err := wr(b); err != nil {
							r.Violate("C03/write-error", "%s: WriteMsg(%d bytes) failed on an open session: %v", side.name, sz, err)
							return
						}
						if d := r.Intn(key, 4); d > 0 {
							time.Sleep(time.Duration(r.Intn(key, 30)) * time.Millisecond)
						}
					}
				})
			}
		}
	}

	// attacker: forged data/control packets with copied public header fields, junk, from third and spoofed addresses
	if !faultFree {
		nAtk := r.Intn("cfg", 60)
		r.Go(func() {
			for i := 0; i < nAtk; i++ {
				if !r.Op("atk") {
					continue
				}
				s := sessions[r.Intn("atk", len(sessions))]
				vs, _ := s.tc.C.VerifSession()
				if len(handshakePkts) > 0 && r.Intn("atk", 8) == 0 {
					// a late network duplicate of one of the handshake datagrams that established the sessions
					g := handshakePkts[r.Intn("atk", len(handshakePkts))].clone()
					g.Copy = 900
					n.Redeliver(g, 0)
					lateHandshakeDup = true
					r.CountFault("late-duplicate-of-handshake-datagram", 1)
					time.Sleep(time.Duration(r.Intn("atk", 50)) * time.Millisecond)
					continue
				}
				if len(genuinePkts) > 0 && r.Intn("atk", 3) == 0 {
					// cross-session / cross-direction injection of a GENUINE packet: delivered to the
					// other end of its own session (wrong direction), or to another session with or
					// without the session id rewritten to the victim's
					g := genuinePkts[r.Intn("atk", len(genuinePkts))].clone()
					g.Copy = 700
					g.Mut = "cross-injected"
					switch r.Intn("atk", 4) {
					case 3: // forged control message made from a genuine data packet (and the reverse):
						// only the public type byte is replaced by the other valid type; destination unchanged
						if g.Data[0] == 0x10 {
							g.Data[0] = 0x80
						} else {
							g.Data[0] = 0x10
						}
						g.Mut = "type-byte-substituted"
						r.CountFault("type-byte-substitution", 1)
					case 0: // back to where it came from (cross-direction)
						g.Dst, g.From = g.Src, g.Dst
					case 1: // into the victim session, header untouched
						g.Dst = s.tc.Addr
						if r.Intn("atk", 2) == 0 {
							g.Dst = srv.Addr
						}
					default: // into the victim session with its session id
						copy(g.Data[4:8], vs.ID[:])
						g.Dst = s.tc.Addr
						if r.Intn("atk", 2) == 0 {
							g.Dst = srv.Addr
						}
					}
					n.Redeliver(g, 0)
					r.CountFault("cross-injected-genuine-packet", 1)
					time.Sleep(time.Duration(r.Intn("atk", 50)) * time.Millisecond)
					continue
				}
				sz := 16 + 32 + r.Intn("atk", 200)
				if r.Intn("atk", 5) == 0 {
					sz = r.Intn("atk", 60)
				}
				pkt := r.Bytes("atk", sz)
				if len(pkt) >= 16 {
					pkt[0] = 0x10
					if r.Intn("atk", 2) == 0 {
						pkt[0] = 0x80
					}
					pkt[1], pkt[2], pkt[3] = 0, 0, 0
					copy(pkt[4:8], vs.ID[:])
					// plausible fresh counter
					ctr := uint64(r.Intn("atk", 2000))
					for j := 0; j < 8; j++ {
						pkt[8+j] = byte(ctr >> (56 - 8*j))
					}
				}
				from := Addr(66, 6666)
				toServer := r.Intn("atk", 2) == 0
				if r.Intn("atk", 2) == 0 { // spoofed source
					if toServer {
						from = s.tc.Addr
					} else {
						from = srv.Addr
					}
				}
				dst := s.tc.Addr
				if toServer {
					dst = srv.Addr
				}
				n.Inject(from, dst, pkt, 0, "forged")
				r.CountFault("forged-datagram", 1)
				time.Sleep(time.Duration(r.Intn("atk", 50)) * time.Millisecond)
			}
		})
	}

	ww.Wait()
	// let the storm pass and in-flight/late copies arrive
	if !faultFree {
		if rem := n.Cfg.FaultsUntil - r.Now(); rem > 0 {
			time.Sleep(rem)
		}
		time.Sleep(n.Cfg.ReplayMax + n.Cfg.LongDelay + 2*time.Second)
		if lateHandshakeDup {
			time.Sleep(4 * time.Second) // past the server's handshake timeout: whatever the duplicate started has expired
		}
	} else {
		time.Sleep(2 * time.Second)
	}

	// (b) undisturbed + probes on the now faithful network
	for _, s := range sessions {
		if s.h.IsClosed() || s.tc.C.IsClosed() {
			r.Violate("C03/session-disturbed", "session %d reports closed although only the network adversary acted", s.idx)
			continue
		}
		for dir := 0; dir < 2; dir++ {
			side, wr := s.c2s, s.tc.C.WriteMsg
			if dir == 1 {
				side, wr = s.s2c, s.h.WriteMsg
			}
			if side.stream {
				continue
			}
			b := makePayload(r, byte(dir), 99, 1, 64)
			side.wrote(b)
			before := side.nRecv
			if err := wr(b); err != nil {
				r.Violate("C03/session-disturbed", "%s: probe write failed after the storm: %v", side.name, err)
				continue
			}
			time.Sleep(500 * time.Millisecond)
			side.mu.Lock()
			left := side.sent[keyOf(b)]
			side.mu.Unlock()
			r.Obligation(1)
			if left != 0 {
				r.Violate("C03/session-disturbed", "%s: probe written on a faithful network after the storm was not delivered (received %d before, %d now)", side.name, before, side.nRecv)
			}
		}
	}
	// (c) completeness, fault-free configuration only
	if faultFree {
		for _, s := range sessions {
			for _, side := range []*chanSide{s.c2s, s.s2c} {
				if side.stream {
					r.Obligation(1)
					if !bytes.Equal(side.wroteBytes, side.gotBytes) {
						i := 0
						for i < len(side.wroteBytes) && i < len(side.gotBytes) && side.wroteBytes[i] == side.gotBytes[i] {
							i++
						}
						r.Violate("C03/nofault/stream-incomplete", "%s: %d bytes accepted by Write calls on a faithful network, %d delivered; streams differ from offset %d", side.name, len(side.wroteBytes), len(side.gotBytes), i)
					}
					continue
				}
				side.mu.Lock()
				missing := 0
				for _, c := range side.sent {
					missing += c
				}
				side.mu.Unlock()
				r.Obligation(1)
				if missing != 0 {
					r.Violate("C03/nofault/message-lost", "%s: %d of %d messages written on a faithful network were never delivered", side.name, missing, side.nSent)
				}
			}
		}
	}
	close(stopRead)
	wg.Wait()
	for _, s := range sessions {
		s.tc.C.Close()
	}
	srv.Srv.Close()
	r.Sample = append(r.Sample, fmt.Sprintf("sessions=%d sent=%d", len(sessions), func() int {
		t := 0
		for _, s := range sessions {
			t += s.c2s.nSent + s.s2c.nSent
		}
		return t
	}()))
}
