package sim

import (
	"fmt"
	"net"
	"time"

	"hop.computer/hop/authgrants"
	"hop.computer/hop/certs"
	"hop.computer/hop/common"
	"hop.computer/hop/config"
	"hop.computer/hop/core"
	"hop.computer/hop/hopclient"
	"hop.computer/hop/transport"
	"hop.computer/hop/tubes"
)

// C09 at application level — the real hop client (hopclient.HopClient: dial, handshake, muxer,
// user authorization, HandleTubes) against the real hop server session code, on the simulated
// network.  Both applications open tubes towards each other: the client the way its exec /
// window-size / port-forwarding code does, the server the way its authorization-grant and
// port-forwarding code does (the session's own newAuthGrantTube).  Tubes that are alive at the
// same time in one session must have distinct (reliability, id) identities, whichever side
// opened them.
//
// The only seam that is not the repository's own is transport.VerifDial (see bin/check, step
// 2b): DialWithDialer opens a real UDP socket.

func init() {
	Register(&Scenario{Name: "app-session-tubes", Property: "C09", Fn: scAppTubes, Yields: true})
}

func scAppTubes(r *Run) {
	if !transport.VerifDialPatched {
		r.Probe("dial-seam-missing")
		return
	}
	n := NewNet(r)
	defer n.Stop()
	n.Quiet = true
	n.Cfg.Latency = time.Duration(1+r.Intn("cfg", 20)) * time.Millisecond
	if r.Intn("cfg", 2) == 0 {
		n.Cfg.Jitter = time.Duration(r.Intn("cfg", 10)) * time.Millisecond
		n.Cfg.PDrop = r.Float("cfg") * 0.05
		n.Cfg.PDup = r.Float("cfg") * 0.05
	}
	if r.Intn("cfg", 3) == 0 {
		r.ArmYields([]string{"tubes.(*Muxer)"}, 1+r.Intn("cfg", 5), 1+r.Intn("cfg", 25), []float64{0.2, 1}[r.Intn("cfg", 2)])
		r.YieldsOn(true)
	}
	ts, hs, sfs, _ := startAppServer(r, n, []string{"user"}, false, 5*time.Second)
	defer ts.Srv.Close()
	key := newX25519()
	sfs.files[keysPath("user")] = &simFile{content: []byte(key.Public.String() + "\n")}

	transport.VerifDial = func(dialer *net.Dialer, network, address string, cfg transport.ClientConfig) (*transport.Client, error) {
		ep := n.Listen("hopclient", Addr(20, 4020), ts.Addr)
		if dialer.Timeout != 0 {
			cfg.HSTimeout = dialer.Timeout
		}
		return transport.NewClient(ep, ts.Addr, cfg), nil
	}
	defer func() { transport.VerifDial = nil }()

	principal := r.Intn("cfg", 2) == 0
	hc := &config.HostConfig{Hostname: "server.sim", Port: 77, User: "user", DataTimeout: 5 * time.Second,
		HandshakeTimeout: 3 * time.Second, RequestAuthorization: true, IsPrincipal: principal}
	c, err := hopclient.NewHopClient(hc)
	must(err)
	if principal {
		must(c.SetCheckIntentCallback(func(authgrants.Intent, *certs.Certificate) error { return fmt.Errorf("denied") }))
	}
	auth := core.InMemoryAuthenticator{X25519KeyPair: key,
		VerifyConfig: transport.VerifyConfig{Store: ts.PKI.Store(), Name: ts.Name},
		Leaf:         SelfSigned(key.Public, certs.RawStringName("user"))}
	var derr error
	if !WithTimeout(r, 60*time.Second, func() { derr = c.DialExternalAuthenticator(ts.Addr.String(), auth) }) {
		r.Probe("client-dial-did-not-return")
		r.NoLeakCheck = true
		return
	}
	if derr != nil {
		// (loss during the handshake or the login exchange; judged by other properties)
		r.Probe("client-dial-failed")
		if c.TubeMuxer != nil {
			WithTimeout(r, 30*time.Second, func() { c.TubeMuxer.Stop() })
		}
		return
	}
	r.Go(func() { c.HandleTubes() })
	defer func() {
		WithTimeout(r, 60*time.Second, func() { c.TubeMuxer.Stop() })
	}()

	var openers []func() (*tubes.Reliable, error)
	for i := 0; i < 100 && len(openers) == 0; i++ {
		openers = hs.VerifAuthGrantTubeOpeners()
		time.Sleep(10 * time.Millisecond)
	}
	if len(openers) != 1 {
		r.Violate("C09/nofault/harness", "expected one server session, found %d", len(openers))
		return
	}
	serverOpen := openers[0]

	type live struct {
		side string
		t    *tubes.Reliable
	}
	liveByID := map[byte]live{}
	rounds := 1 + r.Intn("rounds", 4)
	for round := 0; round < rounds; round++ {
		// the two applications open a tube each at (nearly) the same moment
		skew := time.Duration(r.Intn("skew", 4)) * time.Duration(r.Intn("skew", 10)) * time.Millisecond
		clientFirst := r.Intn("skew", 2) == 0
		var ct, st *tubes.Reliable
		var cerr, serr error
		done := make(chan struct{}, 2)
		r.Go(func() {
			if !clientFirst {
				time.Sleep(skew)
			}
			// (a window-size tube: the server's handler for it waits for a pty and leaves the tube open)
			ct, cerr = c.TubeMuxer.CreateReliableTube(common.WinSizeTube)
			done <- struct{}{}
		})
		r.Go(func() {
			if clientFirst {
				time.Sleep(skew)
			}
			st, serr = serverOpen()
			done <- struct{}{}
		})
		ok := WithTimeout(r, 60*time.Second, func() { <-done; <-done })
		if !ok {
			r.Probe("create-did-not-return")
			r.NoLeakCheck = true
			return
		}
		for _, x := range []struct {
			side string
			t    *tubes.Reliable
			err  error
		}{{"client", ct, cerr}, {"server", st, serr}} {
			if x.err != nil || x.t == nil {
				r.Probe("create-failed")
				continue
			}
			r.Obligation(1)
			id := x.t.GetID()
			if o, clash := liveByID[id]; clash {
				r.Violate("C09/id-clash/two-sides-of-one-session",
					"the %s opened a reliable tube and got identifier %d while the reliable tube the %s opened with identifier %d is still open in the same session: two distinct tubes share one (reliability, id) identity (round %d, skew %v)",
					x.side, id, o.side, id, round, skew)
			}
			liveByID[id] = live{x.side, x.t}
		}
		r.Logf("round %d: client tube %v (%v), server tube %v (%v)", round, tubeID(ct), cerr, tubeID(st), serr)
		if r.Failed() {
			break
		}
		time.Sleep(time.Duration(r.Intn("gap", 300)) * time.Millisecond)
		// sometimes the older tubes are closed again (identifier reuse on later rounds)
		if r.Intn("close", 3) == 0 {
			for id, l := range liveByID {
				l := l
				WithTimeout(r, 30*time.Second, func() { l.t.Close() })
				delete(liveByID, id)
			}
			time.Sleep(time.Duration(1+r.Intn("gap", 5)) * time.Second)
		}
	}
	r.Sample = append(r.Sample, fmt.Sprintf("rounds=%d principal=%v live=%d", rounds, principal, len(liveByID)))
}

func tubeID(t *tubes.Reliable) any {
	if t == nil {
		return "-"
	}
	return t.GetID()
}
