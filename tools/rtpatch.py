#!/usr/bin/env python3
"""Generate the determinised Go runtime overlay (DESIGN.md section 2.2).

Reads files from the installed GOROOT (never modifies it), applies exact string
replacements, writes the patched copies to <out>/rt/ and prints the overlay
"Replace" entries as JSON on stdout.  Every anchor must be found exactly once,
otherwise the script exits 2 (infrastructure trouble, never a violation).
"""
import json
import os
import sys

PATCHES = {
    "runtime/rand.go": [
        # fixed startup seed (hash keys, per-P state) instead of OS entropy
        ("\tglobalRand.state.Init(*seed)\n",
         "\tfor i := range seed {\n\t\tseed[i] = byte(i*7 + 1)\n\t}\n\tglobalRand.state.Init(*seed)\n"),
        # per-map seeds from the dedicated stream
        ("func maps_rand() uint64 {\n\treturn rand()\n}",
         "func maps_rand() uint64 {\n"
         "\t// verif: inside a bubble every map draw returns the per-run constant, so map\n"
         "\t// iteration order is a function of the run seed and the map's own history only\n"
         "\t// (lazily initialised library maps must not shift the draws of later maps).\n"
         "\tif gp := getg(); gp != nil && gp.bubble != nil {\n\t\treturn verifMapSeed\n\t}\n"
         "\treturn rand()\n}"),
        # dedicated seeded stream (appended)
        ("func legacy_fastrand64() uint64 {\n\treturn rand()\n}\n",
         "func legacy_fastrand64() uint64 {\n\treturn rand()\n}\n"
         "\nvar verifRandState uint64 = 0x9E3779B97F4A7C15\n"
         "var verifMapSeed uint64 = 0x2545F4914F6CDD1D\n"
         "\n//go:linkname verifRandSeed\n"
         "func verifRandSeed(s uint64) {\n"
         "\tverifRandState = s\n"
         "\tverifMapSeed = (s ^ 0xD6E8FEB86659FD93) * 0xBF58476D1CE4E5B9\n"
         "\tverifMapSeed ^= verifMapSeed >> 29\n"
         "}\n"
         "\n//go:nosplit\n"
         "func verifNext() uint64 {\n"
         "\tverifRandState += 0x9E3779B97F4A7C15\n"
         "\tz := verifRandState\n"
         "\tz = (z ^ (z >> 30)) * 0xBF58476D1CE4E5B9\n"
         "\tz = (z ^ (z >> 27)) * 0x94D049BB133111EB\n"
         "\treturn z ^ (z >> 31)\n"
         "}\n"
         "\n//go:nosplit\n"
         "func verifNextN(n uint32) uint32 {\n"
         "\treturn uint32((uint64(uint32(verifNext()>>32)) * uint64(n)) >> 32)\n"
         "}\n"
         # identity of the running goroutine, for the loop-iteration counter of the instrumented copies
         "\n//go:linkname verifGoid\n"
         "//go:nosplit\n"
         "func verifGoid() uint64 {\n"
         "\treturn getg().goid\n"
         "}\n"),
    ],
    "runtime/select.go": [
        ("\t\tj := cheaprandn(uint32(norder + 1))\n",
         "\t\tvar j uint32\n"
         "\t\tif gp.bubble != nil {\n\t\t\tj = verifNextN(uint32(norder + 1))\n\t\t} else {\n\t\t\tj = cheaprandn(uint32(norder + 1))\n\t\t}\n"),
    ],
    "runtime/time.go": [
        ("\t\t\tt.rand = cheaprand()\n",
         "\t\t\tt.rand = uint32(verifNext() >> 32)\n"),
    ],
    "runtime/proc.go": [
        ("const forcePreemptNS = 10 * 1000 * 1000 // 10ms\n",
         "const forcePreemptNS = 1 << 60 // verif: never\n"),
        ("func retake(now int64) uint32 {\n\tn := 0\n",
         "func retake(now int64) uint32 {\n\tif verifNoRetake {\n\t\treturn 0\n\t}\n\tn := 0\n"),
        # Gosched of a bubbled goroutine goes to the tail of the LOCAL run queue: the global
        # queue is polled every 61st scheduler tick, and the tick count is bumped by runtime
        # background goroutines at wall-clock dependent moments
        ("\t} else {\n\t\tlock(&sched.lock)\n\t\tglobrunqput(gp)\n\t\tunlock(&sched.lock)\n\t}\n\n\tif mainStarted {\n\t\twakep()\n\t}\n\n\tschedule()\n}\n",
         "\t} else if gp.bubble != nil {\n\t\trunqput(pp, gp, false)\n\t} else {\n\t\tlock(&sched.lock)\n\t\tglobrunqput(gp)\n\t\tunlock(&sched.lock)\n\t}\n\n\tif mainStarted {\n\t\twakep()\n\t}\n\n\tschedule()\n}\n"),
        ("func runqgrab(pp *p, batch *[256]guintptr, batchHead uint32, stealRunNextG bool) uint32 {",
         "func runqgrab(pp *p, batch *[4096]guintptr, batchHead uint32, stealRunNextG bool) uint32 {"),
        ("const randomizeScheduler = raceenabled\n",
         "const randomizeScheduler = false\n\nvar verifNoRetake = true\n"),
    ],
    "runtime/runtime2.go": [
        # a local run queue that never overflows in a simulated run: overflow moves half of it to the
        # GLOBAL queue, which is polled every 61st scheduler tick, and the tick count is bumped by
        # runtime background goroutines at wall-clock dependent moments (scenarios with several
        # hundred runnable goroutines diverged between process layouts)
        ("\trunq     [256]guintptr\n", "\trunq     [4096]guintptr\n"),
        ("\twaitReasonSynctestSelect:        true,\n",
         "\twaitReasonSynctestSelect:        true,\n"
         "\twaitReasonSyncMutexLock:         true,\n"
         "\twaitReasonSyncRWMutexRLock:      true,\n"
         "\twaitReasonSyncRWMutexLock:       true,\n"),
    ],
    "runtime/sema.go": [
        ("func internal_sync_nanotime() int64 {\n\treturn nanotime()\n}",
         "func internal_sync_nanotime() int64 {\n\treturn 1\n}"),
    ],
}


def main():
    goroot, out = sys.argv[1], sys.argv[2]
    rt = os.path.join(out, "rt")
    os.makedirs(rt, exist_ok=True)
    replace = {}
    for rel, subs in PATCHES.items():
        src = os.path.join(goroot, "src", rel)
        with open(src) as f:
            text = f.read()
        for old, new in subs:
            n = text.count(old)
            if n != 1:
                sys.stderr.write("rtpatch: anchor found %d times in %s: %r\n" % (n, rel, old[:60]))
                sys.exit(2)
            text = text.replace(old, new)
        dst = os.path.join(rt, rel.replace("/", "_"))
        prev = None
        if os.path.exists(dst):
            with open(dst) as f:
                prev = f.read()
        if prev != text:  # keep mtime stable so the build cache stays warm
            with open(dst, "w") as f:
                f.write(text)
        replace[src] = dst
    json.dump(replace, sys.stdout, indent=1)


if __name__ == "__main__":
    main()
