package sim

import (
	cryptorand "crypto/rand"
	"fmt"
	"net"
	"sync"
	"time"

	"hop.computer/hop/authkeys"
	"hop.computer/hop/certs"
	"hop.computer/hop/config"
	"hop.computer/hop/hopserver"
	"hop.computer/hop/keys"
	"hop.computer/hop/transport"
)

// PKI is a root + intermediate created inside the bubble with the real
// issuing functions (validity windows are relative to simulated time).
type PKI struct {
	Name    string
	RootKey *keys.SigningKeyPair
	IntKey  *keys.SigningKeyPair
	Root    *certs.Certificate
	Int     *certs.Certificate
}

func must(err error) {
	if err != nil {
		panic("sim: world construction failed: " + err.Error())
	}
}

// NewPKI issues a fresh root and intermediate.
func NewPKI(name string) *PKI {
	p := &PKI{Name: name}
	p.RootKey = keys.GenerateNewSigningKeyPair()
	p.IntKey = keys.GenerateNewSigningKeyPair()
	root, err := certs.SelfSignRoot(&certs.Identity{PublicKey: p.RootKey.Public, Names: []certs.Name{certs.RawStringName(name + " root")}}, p.RootKey)
	must(err)
	must(root.ProvideKey((*[32]byte)(&p.RootKey.Private)))
	inter, err := certs.IssueIntermediate(root, &certs.Identity{PublicKey: p.IntKey.Public, Names: []certs.Name{certs.RawStringName(name + " intermediate")}})
	must(err)
	must(inter.ProvideKey((*[32]byte)(&p.IntKey.Private)))
	p.Root, p.Int = root, inter
	return p
}

// Leaf issues a leaf for the key with the given names, valid for validity from now.
func (p *PKI) Leaf(pub keys.DHPublicKey, validity time.Duration, names ...certs.Name) *certs.Certificate {
	c, err := certs.IssueLeafWithValidity(p.Int, &certs.Identity{PublicKey: pub, Names: names}, validity)
	must(err)
	return c
}

// Store returns a trust store holding this PKI's root.
func (p *PKI) Store() certs.Store {
	s := certs.Store{}
	s.AddCertificate(p.Root)
	return s
}

// SelfSigned makes a self-signed leaf for the key.
func SelfSigned(pub keys.DHPublicKey, names ...certs.Name) *certs.Certificate {
	c, err := certs.SelfSignLeaf(&certs.Identity{PublicKey: pub, Names: names})
	must(err)
	return c
}

// TServer is a real transport.Server on the simulated network.
type TServer struct {
	Srv   *transport.Server
	EP    *Endpoint
	Addr  *net.UDPAddr
	Key   *keys.X25519KeyPair
	KEM   *keys.KEMKeyPair
	Leaf  *certs.Certificate
	PKI   *PKI
	Name  certs.Name
	Cfg   transport.ServerConfig
	Serve chan error
}

// ServerOpts configures StartServer.
type ServerOpts struct {
	Addr         *net.UDPAddr
	PKI          *PKI
	Name         string
	Hidden       bool
	ClientVerify *transport.VerifyConfig
	HSTimeout    time.Duration
	MaxPending   int
	MaxBuffered  int
	Mutate       func(cfg *transport.ServerConfig)
}

// StartServer builds and starts a real transport server.
func StartServer(r *Run, n *Net, o ServerOpts) *TServer {
	if o.PKI == nil {
		o.PKI = NewPKI("srv")
	}
	if o.Name == "" {
		o.Name = "server.sim"
	}
	if o.Addr == nil {
		o.Addr = Addr(1, 77)
	}
	if o.HSTimeout == 0 {
		o.HSTimeout = 5 * time.Second
	}
	ts := &TServer{Addr: o.Addr, PKI: o.PKI, Name: certs.DNSName(o.Name), Serve: make(chan error, 1)}
	ts.Key = keys.GenerateNewX25519KeyPair()
	kem, err := keys.GenerateKEMKeyPair(cryptorand.Reader)
	must(err)
	ts.KEM = kem
	ts.Leaf = o.PKI.Leaf(ts.Key.Public, 24*time.Hour, ts.Name)
	ts.EP = n.Listen("server", o.Addr, nil)
	cv := o.ClientVerify
	if cv == nil {
		cv = &transport.VerifyConfig{InsecureSkipVerify: true}
	}
	cfg := transport.ServerConfig{
		KeyPair: ts.Key, KEMKeyPair: ts.KEM, Certificate: ts.Leaf, Intermediate: o.PKI.Int,
		HandshakeTimeout: o.HSTimeout, ClientVerify: cv, IsHidden: o.Hidden,
		MaxPendingConnections: o.MaxPending, MaxBufferedPacketsPerConnection: o.MaxBuffered,
	}
	if o.Mutate != nil {
		o.Mutate(&cfg)
	}
	ts.Cfg = cfg
	srv, err := transport.NewServer(ts.EP, cfg)
	must(err)
	ts.Srv = srv
	go func() { ts.Serve <- srv.Serve() }()
	return ts
}

// StartServerViaHopServer builds the transport server the way a deployment does: from a config.ServerConfig
// through the REAL hopserver.NewHopServer (its socket is the simulated one, see the VerifListen seam).  The
// client-verification policy is whatever the constructor derives from policy: 0 CA store, 1 authorized keys
// only, 2 both, 3 skip verification.  It returns nil if the seam is not available.
func StartServerViaHopServer(r *Run, n *Net, o ServerOpts, policy int, caCerts []*certs.Certificate) (*TServer, *hopserver.HopServer) {
	if !hopserver.VerifListenPatched {
		return nil, nil
	}
	if o.PKI == nil {
		o.PKI = NewPKI("srv")
	}
	if o.Name == "" {
		o.Name = "server.sim"
	}
	if o.Addr == nil {
		o.Addr = Addr(1, 77)
	}
	if o.HSTimeout == 0 {
		o.HSTimeout = 5 * time.Second
	}
	ts := &TServer{Addr: o.Addr, PKI: o.PKI, Name: certs.DNSName(o.Name), Serve: make(chan error, 1)}
	ts.Key = keys.GenerateNewX25519KeyPair()
	kem, err := keys.GenerateKEMKeyPair(cryptorand.Reader)
	must(err)
	ts.KEM = kem
	ts.Leaf = o.PKI.Leaf(ts.Key.Public, 24*time.Hour, ts.Name, certs.RawStringName(o.Name))
	ts.EP = n.Listen("server", o.Addr, nil)
	sc := &config.ServerConfig{ListenAddress: o.Addr.String(), HandshakeTimeout: o.HSTimeout,
		Key: ts.Key, KEMKey: ts.KEM, Certificate: ts.Leaf, Intermediate: o.PKI.Int}
	if o.Hidden {
		sc.HiddenModeVHostNames = []string{o.Name}
	}
	switch policy {
	case 0:
		sc.CACerts = caCerts
	case 1:
		sc.DisableCertificateValidation, sc.EnableAuthorizedKeys = true, true
	case 2:
		sc.CACerts, sc.EnableAuthorizedKeys = caCerts, true
	default:
		sc.InsecureSkipVerify = true
	}
	hopserver.VerifListen = func(string) (transport.UDPLike, error) { return ts.EP, nil }
	hs, err := hopserver.NewHopServer(sc)
	hopserver.VerifListen = nil
	must(err)
	ts.Srv = hs.Server
	go func() { ts.Serve <- ts.Srv.Serve() }()
	return ts, hs
}

// TClient is a real transport.Client on the simulated network.
type TClient struct {
	C    *transport.Client
	EP   *Endpoint
	Addr *net.UDPAddr
	Key  *keys.X25519KeyPair
	Leaf *certs.Certificate
	Cfg  transport.ClientConfig
}

// ClientOpts configures NewTClient.
type ClientOpts struct {
	Addr      *net.UDPAddr
	Hidden    bool
	HSTimeout time.Duration
	Leaf      *certs.Certificate
	Inter     *certs.Certificate
	Key       *keys.X25519KeyPair
	Mutate    func(cfg *transport.ClientConfig)
}

// NewTClient builds a real transport client for server ts (no handshake yet).
func NewTClient(r *Run, n *Net, ts *TServer, o ClientOpts) *TClient {
	tc := &TClient{Addr: o.Addr}
	if tc.Addr == nil {
		tc.Addr = Addr(2, 4000)
	}
	tc.Key = o.Key
	if tc.Key == nil {
		tc.Key = keys.GenerateNewX25519KeyPair()
	}
	tc.Leaf = o.Leaf
	if tc.Leaf == nil {
		tc.Leaf = SelfSigned(tc.Key.Public)
	}
	if o.HSTimeout == 0 {
		o.HSTimeout = 5 * time.Second
	}
	cfg := transport.ClientConfig{
		Exchanger: tc.Key, Leaf: tc.Leaf, Intermediate: o.Inter, HSTimeout: o.HSTimeout,
		Verify: transport.VerifyConfig{Store: ts.PKI.Store(), Name: ts.Name},
	}
	if o.Hidden {
		cfg.ServerKEMKey = &ts.KEM.Public
	}
	if o.Mutate != nil {
		o.Mutate(&cfg)
	}
	tc.Cfg = cfg
	tc.EP = n.Listen(fmt.Sprintf("client-%s", tc.Addr), tc.Addr, ts.Addr)
	tc.C = transport.NewClient(tc.EP, ts.Addr, cfg)
	return tc
}

// AuthKeySet builds an authorized-key set.
func AuthKeySet(pubs ...keys.DHPublicKey) *authkeys.SyncAuthKeySet {
	s := authkeys.NewSyncAuthKeySet()
	for _, p := range pubs {
		s.AddKey(p)
	}
	return s
}

// WithTimeout runs f in a harness goroutine and reports whether it returned
// within d of simulated time.
func WithTimeout(r *Run, d time.Duration, f func()) bool {
	done := make(chan struct{})
	r.Go(func() {
		f()
		close(done)
	})
	t := time.NewTimer(d)
	defer t.Stop()
	select {
	case <-done:
		return true
	case <-t.C:
		return false
	}
}

func newX25519() *keys.X25519KeyPair { return keys.GenerateNewX25519KeyPair() }

// HandleRegistry accepts every connection the server offers and lets the
// harness fetch the handle that belongs to a given client (by session id).
type HandleRegistry struct {
	mu      sync.Mutex
	byID    map[[4]byte]*transport.Handle
	arrived chan struct{}
	All     []*transport.Handle
}

// NewHandleRegistry starts the accept loop.
func NewHandleRegistry(r *Run, srv *transport.Server) *HandleRegistry {
	g := &HandleRegistry{byID: map[[4]byte]*transport.Handle{}, arrived: make(chan struct{}, 1)}
	r.Go(func() {
		for {
			h, err := srv.AcceptTimeout(24 * time.Hour)
			if err != nil {
				return
			}
			vs, _ := h.VerifSession()
			g.mu.Lock()
			g.byID[vs.ID] = h
			g.All = append(g.All, h)
			g.mu.Unlock()
			select {
			case g.arrived <- struct{}{}:
			default:
			}
		}
	})
	return g
}

// For waits up to d for the handle of client c's session.
func (g *HandleRegistry) For(c *transport.Client, d time.Duration) *transport.Handle {
	vs, ok := c.VerifSession()
	if !ok {
		return nil
	}
	return g.ByID(vs.ID, d)
}

// ByID waits up to d for the handle with the given session id.
func (g *HandleRegistry) ByID(id [4]byte, d time.Duration) *transport.Handle {
	deadline := time.NewTimer(d)
	defer deadline.Stop()
	for {
		g.mu.Lock()
		h := g.byID[id]
		g.mu.Unlock()
		if h != nil {
			return h
		}
		select {
		case <-g.arrived:
		case <-deadline.C:
			return nil
		}
	}
}

// Count returns the number of connections offered so far.
func (g *HandleRegistry) Count() int {
	g.mu.Lock()
	defer g.mu.Unlock()
	return len(g.All)
}

func dnsName(s string) certs.Name { return certs.DNSName(s) }

func newKEM() *keys.KEMKeyPair {
	k, err := keys.GenerateKEMKeyPair(cryptorand.Reader)
	must(err)
	return k
}
