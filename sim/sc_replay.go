package sim

import (
	"container/heap"
	"encoding/binary"
	"fmt"
	"time"

	"hop.computer/hop/transport"
)

// C14 — the replay filter accepts each fresh counter once and nothing stale.

func init() {
	Register(&Scenario{Name: "replay-window", Property: "C14", Fn: scReplayWindow})
	Register(&Scenario{Name: "replay-insitu", Property: "C14", Fn: scReplayInSitu})
}

// replayModel is the set-based reference model.  The window size comes from
// the property statement (448), not from the package under test.
type replayModel struct {
	seen   map[uint64]struct{}
	top    uint64
	hasTop bool
}

const statedWindow = 448

func newReplayModel() *replayModel { return &replayModel{seen: map[uint64]struct{}{}} }

func (m *replayModel) accept(c uint64) bool {
	if _, dup := m.seen[c]; dup {
		return false
	}
	if m.hasTop && c+statedWindow < m.top {
		return false
	}
	m.seen[c] = struct{}{}
	if !m.hasTop || c > m.top {
		m.top, m.hasTop = c, true
	}
	if len(m.seen) > 200000 { // counters that far below the top can never be accepted again
		for k := range m.seen {
			if k+statedWindow < m.top {
				delete(m.seen, k)
			}
		}
	}
	return true
}

type arrival struct {
	at  uint64
	seq uint64
	ctr uint64
}
type arrivalHeap []arrival

func (h arrivalHeap) Len() int { return len(h) }
func (h arrivalHeap) Less(i, j int) bool {
	if h[i].at != h[j].at {
		return h[i].at < h[j].at
	}
	return h[i].seq < h[j].seq
}
func (h arrivalHeap) Swap(i, j int) { h[i], h[j] = h[j], h[i] }
func (h *arrivalHeap) Push(x any)   { *h = append(*h, x.(arrival)) }
func (h *arrivalHeap) Pop() any {
	o := *h
	n := len(o)
	x := o[n-1]
	*h = o[:n-1]
	return x
}

// scReplayWindow drives the real SlidingWindow with the arrival histories a
// simulated link produces for a counting sender (loss, duplication, bounded and
// unbounded reordering, long delays, bursts, forward jumps).
func scReplayWindow(r *Run) {
	nSend := 2000 + r.Intn("cfg", 30000)
	if r.Tier == "thorough" {
		nSend = 5000 + r.Intn("cfg", 200000)
	}
	pLoss := r.Float("cfg") * 0.3
	pDup := r.Float("cfg") * 0.3
	// reordering depth in "sender ticks": tuned to straddle block (64), window (448) and ring (512) sizes
	depths := []uint64{0, 3, 60, 64, 70, 440, 448, 450, 512, 520, 2000}
	depth := depths[r.Intn("cfg", len(depths))]
	pLate := r.Float("cfg") * 0.05
	lateMax := []uint64{100, 449, 600, 5000, 100000}[r.Intn("cfg", 5)]
	pJump := []float64{0, 0.0005, 0.005, 0.05}[r.Intn("cfg", 4)]
	r.SetCfg("replay", fmt.Sprintf("n=%d loss=%.2f dup=%.2f depth=%d late=%.3f/%d jump=%.4f", nSend, pLoss, pDup, depth, pLate, lateMax, pJump))

	var w transport.SlidingWindow
	model := newReplayModel()
	var h arrivalHeap
	var seq uint64
	push := func(at, c uint64) {
		seq++
		heap.Push(&h, arrival{at, seq, c})
	}
	rng := r.Seed() ^ 0xABCD
	next := func() uint64 { rng = splitmix(rng); return rng }
	frac := func() float64 { return float64(next()>>11) / (1 << 53) }
	ctr := uint64(0)
	if r.Intn("cfg", 4) == 0 {
		ctr = uint64(1)<<62 - uint64(r.Intn("cfg", 1000)) // high counters, still below 2^63
	}
	nArr, nAcc, nDupArr, nStale, nJumps := 0, 0, 0, 0, 0
	bad := 0
	process := func(a arrival) {
		nArr++
		want := model.accept(a.ctr)
		got := w.Check(a.ctr)
		if got {
			w.Mark(a.ctr) // the call protocol of readPacketLocked: check, then mark when accepted
			nAcc++
		}
		if got != want && bad < 3 {
			bad++
			kind := "C14/fresh-counter-rejected"
			if got {
				kind = "C14/stale-or-duplicate-accepted"
			}
			_, dup := model.seen[a.ctr]
			r.Violate(kind, "arrival #%d: counter %d: filter says accept=%v, set model says %v (highest accepted %d, distance %d, seen before=%v)", nArr, a.ctr, got, want, model.top, int64(model.top)-int64(a.ctr), dup && !want)
		}
	}
	for tick := uint64(0); tick < uint64(nSend); tick++ {
		// deliver everything that arrives before this tick
		for h.Len() > 0 && h[0].at <= tick {
			process(heap.Pop(&h).(arrival))
		}
		if frac() < pJump {
			var j uint64
			switch next() % 6 {
			case 0:
				j = 1 + next()%64
			case 1:
				j = 60 + next()%10
			case 2:
				j = 440 + next()%20
			case 3:
				j = 505 + next()%16
			case 4:
				j = 1 + next()%100000
			default:
				j = 1 + next()%(1<<40)
			}
			if ctr+j < 1<<63 {
				ctr += j
				nJumps++
			}
		}
		c := ctr
		ctr++
		if frac() < pLoss {
			continue
		}
		d := uint64(0)
		if depth > 0 {
			d = next() % (depth + 1)
		}
		if frac() < pLate {
			d += next() % (lateMax + 1)
			nStale++
		}
		push(tick+1+d, c)
		for frac() < pDup {
			nDupArr++
			push(tick+1+d+next()%(2*depth+lateMax/4+2), c)
		}
	}
	for h.Len() > 0 {
		process(heap.Pop(&h).(arrival))
	}
	r.Obligation(int64(nArr))
	r.CountFault("replay-duplicate-arrival", int64(nDupArr))
	r.CountFault("replay-late-arrival", int64(nStale))
	r.CountFault("replay-forward-jump", int64(nJumps))
	r.Logf("arrivals=%d accepted=%d dups=%d late=%d jumps=%d top=%d", nArr, nAcc, nDupArr, nStale, nJumps, model.top)
	r.Sample = append(r.Sample, fmt.Sprintf("arrivals=%d accepted=%d dup=%d late=%d jumps=%d", nArr, nAcc, nDupArr, nStale, nJumps))
}

// scReplayInSitu checks the filter where it is used: with reorder/dup/delay
// faults only, an authentic datagram reaches the application exactly when the
// model accepts its counter, and a forged packet never consumes a counter.
func scReplayInSitu(r *Run) {
	n := NewNet(r)
	defer n.Stop()
	n.Quiet = true
	hidden := r.Intn("cfg", 2) == 0
	srv := StartServer(r, n, ServerOpts{Hidden: hidden, MaxBuffered: 100000})
	defer srv.Srv.Close()
	reg := NewHandleRegistry(r, srv.Srv)
	tc := NewTClient(r, n, srv, ClientOpts{Hidden: hidden})
	if err := tc.C.Handshake(); err != nil {
		r.Violate("C14/nofault/handshake-failed", "%v", err)
		return
	}
	defer tc.C.Close()
	h := reg.For(tc.C, 5*time.Second)
	if h == nil {
		r.Violate("C14/nofault/accept-failed", "no handle")
		return
	}
	vs, _ := tc.C.VerifSession()
	// a long-lived session: the sender's counter is already large (close to and across 2^32, 2^48, ...)
	base := uint64(0)
	if r.Intn("cfg", 4) == 0 {
		base = []uint64{1<<32 - 1 - uint64(r.Intn("cfg", 600)), 1<<31 - uint64(r.Intn("cfg", 600)), 1<<48 - uint64(r.Intn("cfg", 600)), 1<<63 - uint64(r.Intn("cfg", 600)), 1 + r.U64("cfg")%(1<<40)}[r.Intn("cfg", 5)]
		cs0, _ := tc.C.VerifSession()
		base += cs0.Count
		if !tc.C.VerifSetSendCounter(base) {
			r.Violate("C14/nofault/harness", "could not move the send counter")
			return
		}
		r.CountFault("send-counter-moved-forward", 1)
	} else {
		cs0, _ := tc.C.VerifSession()
		base = cs0.Count
	}
	r.SetCfg("counter-base", base)
	c := &n.Cfg
	c.Latency = 5 * time.Millisecond
	c.Jitter = time.Duration(r.Intn("cfg", 400)) * time.Millisecond
	c.PDup = r.Float("cfg") * 0.4
	c.PLongDel, c.LongDelay = r.Float("cfg")*0.1, time.Duration(1+r.Intn("cfg", 20))*time.Second
	c.PReplay, c.ReplayMax = r.Float("cfg")*0.1, time.Duration(1+r.Intn("cfg", 30))*time.Second
	r.SetCfg("net", fmt.Sprintf("%+v", *c))

	model := newReplayModel()
	var expect [][]byte // payload hashes in the order the model accepts deliveries
	forgedMarked := map[uint64]bool{}
	n.OnDeliver = func(d *Dgram, ep *Endpoint) {
		if ep != srv.EP || len(d.Data) < 16 || d.Data[0] != 0x10 {
			return
		}
		ctr := binary.BigEndian.Uint64(d.Data[8:16])
		if !d.Verbatim() {
			forgedMarked[ctr] = true // forged packets carry counters the client uses later
			return
		}
		if model.accept(ctr) {
			expect = append(expect, append([]byte(nil), d.Data[len(d.Data)-8:]...))
			if forgedMarked[ctr] {
				r.Probe("genuine-after-forged-same-counter")
			}
		}
	}
	var got [][]byte
	nMsg := 200 + r.Intn("cfg", 1500)
	readerDone := make(chan struct{})
	stop := make(chan struct{})
	r.Go(func() {
		defer close(readerDone)
		buf := make([]byte, 2048)
		for {
			h.SetReadDeadline(time.Now().Add(time.Second))
			k, err := h.ReadMsg(buf)
			if err != nil {
				select {
				case <-stop:
					return
				default:
					continue
				}
			}
			got = append(got, append([]byte(nil), buf[:k]...))
		}
	})
	sent := map[string]uint64{}
	nEmpty := 0
	for i := 0; i < nMsg; i++ {
		msg := make([]byte, 12)
		binary.BigEndian.PutUint64(msg, uint64(i))
		copy(msg[8:], "msg!")
		if r.Intn("empty", 12) == 0 {
			msg = []byte{} // an empty message is a message (counted, not identified)
			nEmpty++
		}
		sent[string(msg)] = uint64(i)
		// forged packets that try to burn the counters the client is about to use
		if r.Intn("forge", 20) == 0 {
			for k := 0; k < 1+r.Intn("forge", 4); k++ {
				pkt := r.Bytes("forge", 16+32+12)
				pkt[0], pkt[1], pkt[2], pkt[3] = 0x10, 0, 0, 0
				copy(pkt[4:8], vs.ID[:])
				// the client's send counter equals the number of messages sent so far
				binary.BigEndian.PutUint64(pkt[8:16], base+uint64(i+k))
				n.Inject(tc.Addr, srv.Addr, pkt, 0, "forged")
				r.CountFault("forged-fresh-counter", 1)
			}
		}
		if err := tc.C.WriteMsg(msg); err != nil {
			r.Violate("C14/nofault/write-failed", "%v", err)
			break
		}
		if r.Intn("pace", 4) == 0 {
			time.Sleep(time.Duration(r.Intn("pace", 20)) * time.Millisecond)
		}
	}
	time.Sleep(c.LongDelay + c.ReplayMax + 3*time.Second)
	close(stop)
	<-readerDone
	// compare: number and order of deliveries to the application = model-accepted deliveries.
	// (the mapping ciphertext-tail -> plaintext is not needed: counters of genuine packets are the
	// message numbers, so the model's accepted order can be recomputed in message numbers)
	r.Obligation(int64(len(got)))
	if len(got) != len(expect) {
		r.Violate("C14/insitu-delivery-mismatch", "application received %d messages, the set model accepts %d of the genuine deliveries (sent %d, forged %d)", len(got), len(expect), nMsg, len(forgedMarked))
	}
	seenMsg := map[uint64]bool{}
	for _, g := range got {
		if len(g) == 0 && nEmpty > 0 {
			continue
		}
		id, ok := sent[string(g)]
		if !ok {
			r.Violate("C14/insitu-unknown-message", "application received a message that was never sent")
			break
		}
		if seenMsg[id] {
			r.Violate("C14/insitu-duplicate-delivery", "message %d was delivered to the application twice", id)
			break
		}
		seenMsg[id] = true
	}
	r.Sample = append(r.Sample, fmt.Sprintf("sent=%d delivered=%d model=%d forged=%d", nMsg, len(got), len(expect), len(forgedMarked)))
}
