package sim

import (
	"io"
	"net"
	"os"
	"sync"
	"time"
)

// bufPipe is an in-memory full-duplex stream connection with unbounded
// buffering in each direction (net.Pipe is synchronous: a writer blocks until
// the peer reads, which real sockets and tubes do not do for small messages).
type bufHalf struct {
	mu     sync.Mutex
	buf    []byte
	closed bool
	wake   chan struct{}
}

func (h *bufHalf) signal() {
	select {
	case h.wake <- struct{}{}:
	default:
	}
}

type bufConn struct {
	rd, wr *bufHalf
	dmu    sync.Mutex
	rdl    time.Time // read deadline (simulated clock); zero = none
}

func (c *bufConn) readDeadline() time.Time {
	c.dmu.Lock()
	defer c.dmu.Unlock()
	return c.rdl
}

// BufPipe returns the two ends of a buffered in-memory connection.
func BufPipe() (net.Conn, net.Conn) {
	a := &bufHalf{wake: make(chan struct{}, 1)}
	b := &bufHalf{wake: make(chan struct{}, 1)}
	return &bufConn{rd: a, wr: b}, &bufConn{rd: b, wr: a}
}

func (c *bufConn) Read(p []byte) (int, error) {
	for {
		c.rd.mu.Lock()
		if len(c.rd.buf) > 0 {
			n := copy(p, c.rd.buf)
			c.rd.buf = c.rd.buf[n:]
			c.rd.mu.Unlock()
			return n, nil
		}
		closed := c.rd.closed
		c.rd.mu.Unlock()
		if closed {
			return 0, io.EOF
		}
		dl := c.readDeadline()
		if dl.IsZero() {
			<-c.rd.wake
			continue
		}
		until := time.Until(dl)
		if until <= 0 {
			return 0, os.ErrDeadlineExceeded
		}
		t := time.NewTimer(until)
		select {
		case <-c.rd.wake:
		case <-t.C:
		}
		t.Stop()
	}
}

func (c *bufConn) Write(p []byte) (int, error) {
	c.wr.mu.Lock()
	if c.wr.closed {
		c.wr.mu.Unlock()
		return 0, io.ErrClosedPipe
	}
	c.wr.buf = append(c.wr.buf, p...)
	c.wr.mu.Unlock()
	c.wr.signal()
	return len(p), nil
}

// Close ends both directions.
func (c *bufConn) Close() error {
	for _, h := range []*bufHalf{c.rd, c.wr} {
		h.mu.Lock()
		h.closed = true
		h.mu.Unlock()
		h.signal()
	}
	return nil
}

func (c *bufConn) LocalAddr() net.Addr                { return Addr(0, 0) }
func (c *bufConn) RemoteAddr() net.Addr               { return Addr(0, 0) }
func (c *bufConn) SetDeadline(t time.Time) error      { return c.SetReadDeadline(t) }
func (c *bufConn) SetWriteDeadline(t time.Time) error { return nil } // (writes never block)

// SetReadDeadline: a blocked or later Read fails with os.ErrDeadlineExceeded once the simulated clock passes t.
func (c *bufConn) SetReadDeadline(t time.Time) error {
	c.dmu.Lock()
	c.rdl = t
	c.dmu.Unlock()
	c.rd.signal() // a blocked reader re-evaluates its deadline
	return nil
}
