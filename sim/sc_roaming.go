package sim

import (
	"encoding/binary"
	"fmt"
	"net"
	"strings"
	"sync"
	"time"

	"hop.computer/hop/transport"
)

// C15 — a session's peer address moves only on authentic, fresh packets.

func init() {
	Register(&Scenario{Name: "roaming", Property: "C15", Fn: scRoaming, Yields: true})
}

func scRoaming(r *Run) {
	n := NewNet(r)
	defer n.Stop()
	n.Cfg.Latency = time.Duration(1+r.Intn("cfg", 15)) * time.Millisecond
	hidden := r.Intn("cfg", 3) == 0
	// a tuning knob that must not matter: tiny receive queues and a slow application, so that genuine
	// packets are dropped because the queue is full
	maxBuf := 0
	if r.Intn("cfg", 3) == 0 {
		maxBuf = 1 + r.Intn("cfg", 4)
	}
	r.SetCfg("max-buffered", maxBuf)
	srv := StartServer(r, n, ServerOpts{Hidden: hidden, MaxBuffered: maxBuf})
	defer srv.Srv.Close()
	reg := NewHandleRegistry(r, srv.Srv)
	tc := NewTClient(r, n, srv, ClientOpts{Hidden: hidden, Mutate: func(cfg *transport.ClientConfig) { cfg.MaxBufferedPackets = maxBuf }})
	if err := tc.C.Handshake(); err != nil {
		r.Violate("C15/nofault/handshake-failed", "%v", err)
		return
	}
	defer tc.C.Close()
	h := reg.For(tc.C, 5*time.Second)
	if h == nil {
		r.Violate("C15/nofault/accept-failed", "no handle")
		return
	}
	vs, _ := tc.C.VerifSession()
	sid := vs.ID
	serverMoves := r.Intn("cfg", 3) == 0 // mirror scenario: the server's address changes
	r.SetCfg("server-moves", serverMoves)
	r.SetCfg("hidden", hidden)

	// light benign faults so that counters arrive out of order sometimes
	n.Cfg.Jitter = time.Duration(r.Intn("cfg", 30)) * time.Millisecond
	n.Cfg.PDup = r.Float("cfg") * 0.1
	n.Cfg.PDrop = r.Float("cfg") * 0.1

	isSession := func(b []byte) bool {
		return len(b) >= 16 && (b[0] == 0x10 || b[0] == 0x80) && b[4] == sid[0] && b[5] == sid[1] && b[6] == sid[2] && b[7] == sid[3]
	}
	// model: one replay model and one peer variable per endpoint
	type side struct {
		name      string
		ep        *Endpoint
		model     *replayModel
		peer      string
		prevPeer  string
		changedIn uint64 // step number in which peer last changed
		senderEP  *Endpoint
		// the application message carried by the packet that last moved the peer, and the transmission count at
		// the moment this side's application was handed that message (0 = not yet)
		moveMsg string
		readSeq uint64
	}
	// which application message each data packet carries: noted when the packet is made, in the goroutine of the
	// harness call that writes it
	var cmu sync.Mutex
	pendingWrite := map[uint64]string{}
	seqMsg := map[uint64]string{}
	noteCreate := func(d *Dgram) {
		cmu.Lock()
		if p, ok := pendingWrite[Goid()]; ok && len(d.Data) > 0 && d.Data[0] == 0x10 {
			seqMsg[d.Seq] = p
		}
		cmu.Unlock()
	}
	srv.EP.OnCreate, tc.EP.OnCreate = noteCreate, noteCreate
	sSide := &side{name: "server", ep: srv.EP, model: newReplayModel(), peer: tc.Addr.String(), senderEP: tc.EP}
	cSide := &side{name: "client", ep: tc.EP, model: newReplayModel(), peer: srv.Addr.String(), senderEP: srv.EP}
	sSide.prevPeer, cSide.prevPeer = sSide.peer, cSide.peer
	// which endpoint really sent transmission #id
	origin := map[uint64]*Endpoint{}
	var captured []*Dgram
	step := uint64(0)
	inStep := false
	n.Step = true
	n.OnDeliver = func(d *Dgram, ep *Endpoint) {
		step++
		inStep = true
		var sd *side
		if ep == sSide.ep {
			sd = sSide
		} else if ep == cSide.ep {
			sd = cSide
		} else {
			return
		}
		if !isSession(d.Data) {
			return
		}
		authentic := d.Verbatim() && origin[d.ID] == sd.senderEP
		if !authentic {
			return
		}
		ctr := binary.BigEndian.Uint64(d.Data[8:16])
		if sd.model.accept(ctr) {
			if d.From.String() != sd.peer {
				sd.prevPeer = sd.peer
				sd.peer = d.From.String()
				sd.changedIn = step
				cmu.Lock()
				sd.moveMsg, sd.readSeq = seqMsg[d.Seq], 0
				cmu.Unlock()
				r.Logf("model: %s peer -> %s (authentic fresh #%d ctr=%d)", sd.name, sd.peer, d.ID, ctr)
				r.Probe("peer-address-moved")
			}
		}
	}
	n.AfterStep = func(d *Dgram) { inStep = false }
	n.OnSend = func(d *Dgram) {
		// (the endpoint that made the transmission, not whoever owns the source address by now: a datagram
		// handed over right before an address change still carries the old source address)
		src := d.SrcEP
		origin[d.ID] = src
		if !isSession(d.Data) {
			return
		}
		var sd *side
		if src == sSide.ep {
			sd = sSide
		} else if src == cSide.ep {
			sd = cSide
		} else {
			return
		}
		if len(captured) < 400 {
			captured = append(captured, d.clone())
		} else { // keep the most recent ones
			copy(captured, captured[1:])
			captured[len(captured)-1] = d.clone()
		}
		r.Obligation(1)
		dst := d.Dst.String()
		ok := dst == sd.peer
		// a transmission drained in the same step in which the model moved may have been
		// emitted just before the endpoint processed that delivery
		if !ok && inStep && sd.changedIn == step && dst == sd.prevPeer {
			ok = true
			// ... but not once the application has been handed the very message whose packet moved the peer:
			// what is sealed after that is "subsequent traffic"
			cmu.Lock()
			late := sd.readSeq != 0 && d.Seq > sd.readSeq
			msg := sd.moveMsg
			cmu.Unlock()
			if late {
				r.Violate("C15/previous-address-used-after-delivery", "%s sent session traffic (#%d) to its previous peer %s although its application had already been handed %q, the message of the authentic fresh packet that came from %s", sd.name, d.ID, dst, msg, sd.peer)
				return
			}
		}
		if !ok {
			r.Violate("C15/traffic-redirected", "%s sent session traffic (#%d) to %s; the last authentic fresh packet it received came from %s (previous peer %s)", sd.name, d.ID, dst, sd.peer, sd.prevPeer)
		}
	}

	write := func(wr func([]byte) error, msg string) {
		g := Goid()
		cmu.Lock()
		pendingWrite[g] = msg
		cmu.Unlock()
		wr([]byte(msg))
		cmu.Lock()
		delete(pendingWrite, g)
		cmu.Unlock()
	}
	// background traffic in both directions so that destinations are observable
	stop := make(chan struct{})
	traffic := func(name string, wr func([]byte) error) {
		r.Go(func() {
			for i := 0; ; i++ {
				select {
				case <-stop:
					return
				default:
				}
				if r.Intn(name, 6) == 0 {
					write(wr, "") // an empty message (a keep-alive): as genuine and as fresh as any other packet
					r.CountFault("empty-message", 1)
				} else {
					write(wr, fmt.Sprintf("%s-%d", name, i))
				}
				time.Sleep(time.Duration(10+r.Intn(name, 60)) * time.Millisecond)
			}
		})
	}
	traffic("c2s", tc.C.WriteMsg)
	traffic("s2c", h.WriteMsg)
	// several writers per connection and socket writes that block now and then: a writer can be held up
	// behind another one while the peer's address changes
	if r.Intn("cfg", 3) == 0 {
		traffic("c2s-b", tc.C.WriteMsg)
		traffic("s2c-b", h.WriteMsg)
		if r.Intn("cfg", 2) == 0 {
			traffic("s2c-c", h.WriteMsg)
		}
		pStall := 0.05 + 0.4*r.Float("cfg")
		for _, ep := range []*Endpoint{srv.EP, tc.EP} {
			ep := ep
			ep.WriteStall = func() time.Duration {
				if !r.Fault("socket-write-stall", ep.Name, pStall) {
					return 0
				}
				return time.Duration(1+r.Intn("stall:"+ep.Name, 200)) * time.Millisecond
			}
		}
	}
	echo := r.Intn("echo", 2) == 0 // the applications answer what they read
	drain := func(sd *side, rd func([]byte) (int, error), dl func(time.Time) error, wr func([]byte) error) {
		r.Go(func() {
			buf := make([]byte, 2048)
			for {
				select {
				case <-stop:
					return
				default:
				}
				dl(time.Now().Add(200 * time.Millisecond))
				k, err := rd(buf)
				if err == nil && k > 0 {
					msg := string(buf[:k])
					cmu.Lock()
					if sd.moveMsg != "" && msg == sd.moveMsg && sd.readSeq == 0 {
						sd.readSeq = n.Dseq()
					}
					cmu.Unlock()
					if echo && !strings.HasPrefix(msg, "re:") {
						write(wr, "re:"+msg)
					}
				}
				if maxBuf > 0 {
					time.Sleep(time.Duration(r.Intn("slow-app", 400)) * time.Millisecond)
				}
			}
		})
	}
	drain(sSide, h.ReadMsg, h.SetReadDeadline, h.WriteMsg)
	drain(cSide, tc.C.ReadMsg, tc.C.SetReadDeadline, tc.C.WriteMsg)
	// schedule perturbation in the receive and send paths of the sessions
	if r.Intn("yield", 2) == 0 {
		fns := []string{"transport.(*SessionState)", "transport.(*Server).handleSessionMessage", "transport.(*Client).handleSessionMessage", "transport.(*Handle)", "transport.(*Server)", "transport.(*Client)", "transport."}
		r.ArmYields([]string{fns[r.Intn("yield", len(fns))]}, 1+r.Intn("yield", 6), 1+r.Intn("yield", 60), []float64{0.05, 0.3, 1}[r.Intn("yield", 3)])
		r.YieldsRescheduleOnly() // (the network is driven step by step: a sleeping goroutine would look like a finished one)
		r.YieldsOn(true)
	}

	atk := Addr(66, 6666)
	nActs := 5 + r.Intn("cfg", 40)
	moves := 0
	for i := 0; i < nActs; i++ {
		time.Sleep(time.Duration(r.Intn("act", 150)) * time.Millisecond)
		if !r.Op("act") {
			continue
		}
		a := atk
		if r.Intn("act", 3) == 0 {
			a = Addr(byte(67+r.Intn("act", 20)), 1000+r.Intn("act", 5000))
		}
		if r.Intn("gap", 6) == 0 {
			// a burst of lost packets: one direction's counter moves forward by up to a window and a bit (what the
			// receiver sees next is a jump), and right afterwards something the receiver accepted shortly before the
			// gap comes again from another address
			d := uint64([]int{1 + r.Intn("gap", 64), 300 + r.Intn("gap", 300), 380 + r.Intn("gap", 140), 448, 449, 512}[r.Intn("gap", 6)])
			if r.Intn("gap", 2) == 0 {
				tc.C.VerifSkipSendCounters(d)
			} else {
				h.VerifSkipSendCounters(d)
			}
			r.CountFault("counter-gap", 1)
			time.Sleep(time.Duration(20+r.Intn("gap", 200)) * time.Millisecond) // (the writers go on: the next packet carries the jump)
			for k := 0; k < 1+r.Intn("gap", 4) && len(captured) > 0; k++ {
				back := 1 + r.Intn("gap", min(len(captured), 120))
				g := captured[len(captured)-back].clone()
				g.From = a
				g.Copy = 300
				n.Redeliver(g, 0)
				r.CountFault("verbatim-replay-from-other-address", 1)
			}
			continue
		}
		switch r.Intn("act", 6) {
		case 0: // the roaming endpoint gets a new address (NAT rebinding / new network)
			moves++
			na := Addr(byte(100+moves), 4000+moves)
			cur := tc.EP.LocalAddr().(*net.UDPAddr)
			if serverMoves {
				cur = srv.EP.LocalAddr().(*net.UDPAddr)
			}
			switch r.Intn("act", 3) {
			case 0: // NAT rebinding: only the port changes
				na = &net.UDPAddr{IP: cur.IP, Port: cur.Port + 1000 + moves}
			case 1: // only the IP changes
				na = &net.UDPAddr{IP: na.IP, Port: cur.Port}
			}
			keep := r.Intn("act", 2) == 0
			if serverMoves {
				n.Rehome(srv.EP, na, keep)
			} else {
				n.Rehome(tc.EP, na, keep)
			}
			r.CountFault("address-change", 1)
			r.Logf("address change #%d keepOld=%v", moves, keep)
		case 1: // forged packet: copied public header, plausible counter, random body
			toServer := r.Intn("act", 2) == 0
			pkt := r.Bytes("act", 16+32+r.Intn("act", 100))
			pkt[0], pkt[1], pkt[2], pkt[3] = 0x10, 0, 0, 0
			copy(pkt[4:8], sid[:])
			binary.BigEndian.PutUint64(pkt[8:16], uint64(r.Intn("act", 5000)))
			dst := srv.EP.LocalAddr().(*net.UDPAddr)
			if !toServer {
				dst = tc.EP.LocalAddr().(*net.UDPAddr)
			}
			n.Inject(a, dst, pkt, 0, "forged")
			r.CountFault("forged-from-other-address", 1)
		case 2, 3: // bit-flipped copy of a genuine packet from another address
			if len(captured) == 0 {
				continue
			}
			g := captured[r.Intn("act", len(captured))].clone()
			if r.Intn("act", 3) == 0 { // corrupted by truncation: still carries the public header of the session
				l := []int{8, 9, 12, 16, 17, 40, 47, 48, len(g.Data) - 1}[r.Intn("act", 9)]
				if l > len(g.Data)-1 {
					l = len(g.Data) - 1
				}
				g.Data = g.Data[:l]
				g.Mut = fmt.Sprintf("trunc@%d", l)
				g.From = a
				n.Redeliver(g, 0)
				r.CountFault("truncated-copy-from-other-address", 1)
				continue
			}
			off := flipOffset(r, "act", 1+r.Intn("act", 6), len(g.Data))
			if off < 8 && off >= 4 {
				off = 8 + r.Intn("act", len(g.Data)-8) // keep the session id so that the packet reaches the session
			}
			g.Data[off] ^= byte(1) << (r.U64("act") % 8)
			g.Mut = fmt.Sprintf("flip@%d", off)
			g.From = a
			n.Redeliver(g, 0)
			r.CountFault("flipped-copy-from-other-address", 1)
		default: // verbatim replay of a genuine packet from another address
			if len(captured) == 0 {
				continue
			}
			g := captured[r.Intn("act", len(captured))].clone()
			g.From = a
			g.Copy = 300
			n.Redeliver(g, 0)
			r.CountFault("verbatim-replay-from-other-address", 1)
		}
	}
	time.Sleep(time.Second)
	close(stop)
	time.Sleep(500 * time.Millisecond)
	// liveness: the roaming endpoint keeps its session
	n.Cfg.PDrop, n.Cfg.PDup, n.Cfg.Jitter = 0, 0, 0
	sess := &liveSess{tc, h}
	if maxBuf > 0 { // make room for the probes
		buf := make([]byte, 2048)
		for _, c := range []interface {
			ReadMsg([]byte) (int, error)
			SetReadDeadline(time.Time) error
		}{h, tc.C} {
			for i := 0; i < 50; i++ {
				c.SetReadDeadline(time.Now().Add(50 * time.Millisecond))
				if _, err := c.ReadMsg(buf); err != nil {
					break
				}
			}
		}
	}
	r.Obligation(1)
	// Precondition of the liveness clause: a genuine fresh packet from the mover's current
	// address must be able to reach the other endpoint, i.e. at least one side still knows
	// where its peer is now (an on-path replay of a dropped packet combined with an address
	// change of the other side can legitimately leave both sides pointing elsewhere).
	alive := true
	switch {
	case cSide.peer == srv.EP.LocalAddr().String():
		alive = sess.probe(r, "final")
	case sSide.peer == tc.EP.LocalAddr().String():
		alive = sess.probeServerFirst(r, "final")
	default:
		r.Probe("roaming-liveness-not-applicable")
	}
	if !alive {
		r.Violate("C15/session-lost-after-roaming", "after %d address change(s) a probe in both directions no longer gets through (server model peer %s, client model peer %s, client at %s, server at %s)", moves, sSide.peer, cSide.peer, tc.EP.LocalAddr(), srv.EP.LocalAddr())
	}
	r.Sample = append(r.Sample, fmt.Sprintf("moves=%d acts=%d serverMoves=%v", moves, nActs, serverMoves))
}
