//go:build verif

package tubes

import "github.com/sirupsen/logrus"

// VerifState returns the lifecycle state of a tube as a string (white-box
// accessor for the simulation harness; file added by -overlay).
func VerifState(t Tube) string {
	names := map[state]string{created: "created", initiated: "initiated", closeWait: "closeWait", lastAck: "lastAck",
		finWait1: "finWait1", finWait2: "finWait2", closing: "closing", closed: "closed"}
	switch v := t.(type) {
	case *Reliable:
		if !v.l.TryLock() {
			return "locked"
		}
		defer v.l.Unlock()
		return names[v.tubeState]
	case *Unreliable:
		if s, ok := v.state.Load().(state); ok {
			return names[s]
		}
	}
	return "?"
}

// VerifRecv drives the real reassembly core (receiver) in isolation.
type VerifRecv struct{ r *receiver }

// VerifNewReceiver creates a receiver that expects frame number start next.
// VerifBuffered returns the number of received, in-order bytes a reliable tube holds for its reader
// right now (-1 for other tubes or while the receiver is busy).
func VerifBuffered(t Tube) int {
	v, ok := t.(*Reliable)
	if !ok || !v.recvWindow.m.TryLock() {
		return -1
	}
	defer v.recvWindow.m.Unlock()
	return v.recvWindow.buffer.Len()
}

// VerifShiftSeq moves the sequence space of an initiated, still idle reliable tube end to start (to be
// called with the same value on both ends before any data is written): the state a long-lived tube
// reaches after start-1 frames.  It reports false if the end is not idle in the initiated state.
func VerifShiftSeq(t Tube, start uint32) bool {
	v, ok := t.(*Reliable)
	if !ok {
		return false
	}
	v.l.Lock()
	defer v.l.Unlock()
	if v.tubeState != initiated {
		return false
	}
	s := v.sender
	s.m.Lock()
	defer s.m.Unlock()
	v.recvWindow.m.Lock()
	defer v.recvWindow.m.Unlock()
	if len(s.frames) != 0 || s.frameNo != 1 || s.ackNo != 1 || v.recvWindow.ackNo != 1 || v.recvWindow.windowStart != 1 ||
		v.recvWindow.buffer.Len() != 0 || len(v.recvWindow.fragments) != 0 {
		return false
	}
	s.frameNo, s.ackNo = start, uint64(start)
	v.recvWindow.ackNo, v.recvWindow.windowStart = uint64(start), uint64(start)
	return true
}

// VerifMuxerRunning reports whether the muxer is still in its running state (nobody stopped it, and it did
// not stop itself after a transport error).
func VerifMuxerRunning(m *Muxer) bool { return m.state.Load() == muxerRunning }

// VerifDupAckLimitHit reports whether the sender of a reliable tube has counted more than 100 duplicate
// acknowledgements in a row (the condition on which recvAck gives the tube up).
func VerifDupAckLimitHit(t Tube) bool {
	v, ok := t.(*Reliable)
	if !ok || !v.sender.m.TryLock() {
		return false
	}
	defer v.sender.m.Unlock()
	return v.sender.senderWindow.duplicatedAckCounter > 100
}

// VerifInitiated reports whether the initiation of a tube has completed (lock-free: the tube lock may be held
// by a goroutine that is parked in a yield).
func VerifInitiated(t Tube) bool {
	switch v := t.(type) {
	case *Reliable:
		select {
		case <-v.initDone:
			return true
		default:
			return false
		}
	case *Unreliable:
		select {
		case <-v.initiated:
			return true
		default:
			return false
		}
	}
	return false
}

func VerifNewReceiver(start uint64) *VerifRecv {
	r := newReceiver(logrus.WithField("verif", "recv"))
	r.m.Lock()
	r.ackNo = start
	r.windowStart = start
	r.m.Unlock()
	return &VerifRecv{r}
}

// Receive feeds one data (or FIN) frame; it returns whether the FIN was processed.
func (v *VerifRecv) Receive(frameNo uint32, data []byte, fin bool) (bool, error) {
	f := &frame{frameNo: frameNo, data: data, dataLength: uint16(len(data)), flags: frameFlags{REL: true, FIN: fin, ACK: fin}}
	return v.r.receive(f)
}

// Drain returns the bytes assembled so far without blocking.
func (v *VerifRecv) Drain() []byte {
	v.r.m.Lock()
	defer v.r.m.Unlock()
	out := append([]byte(nil), v.r.buffer.Bytes()...)
	v.r.buffer.Reset()
	return out
}

// Ack returns the receiver's cumulative acknowledgement number (32 bit on the wire).
func (v *VerifRecv) Ack() uint32 { return v.r.getAck() }

// VerifProgress is a number that grows whenever a reliable tube end makes progress: a frame of its own was
// acknowledged, or the next in-order frame of the peer arrived (sum of the two cumulative counters).  Read
// without locks: the simulation runs on one processor and the caller sits between scheduling points (the
// tiers that run under the race detector do not use it).  Oracles use it to tell "slow under loss" from
// "stuck".
func VerifProgress(t Tube) uint64 {
	v, ok := t.(*Reliable)
	if !ok {
		return 0
	}
	return v.sender.ackNo + v.recvWindow.ackNo
}
