package sim

import (
	"fmt"
	"io"
	"net"
	"strings"
	"time"

	"hop.computer/hop/tubes"
)

// C16, shutdown in the middle of a bulk transfer — far more frames are written than the window holds, so
// the tube's sender goroutine is still feeding frames (window-open signals, retransmission ticks) when a
// stop, a close, a forced close or a timer arrives.  Yields are concentrated in the functions that take
// part.  Oracles: no panic (process-fatal outcomes are classified by the orchestrator), every Stop / Close
// / Write call returns within its bound, no goroutine is left behind.

func init() {
	Register(&Scenario{Name: "bulk-stop", Property: "C16", Fn: scBulkStop, Yields: true, LeakClass: "C16/goroutine-leak"})
}

func scBulkStop(r *Run) {
	n := NewNet(r)
	defer n.Stop()
	n.Quiet = true
	c := &n.Cfg
	c.Latency = time.Duration(1+r.Intn("cfg", 30)) * time.Millisecond
	if r.Intn("cfg", 4) == 0 {
		c.Latency = time.Duration(50+r.Intn("cfg", 400)) * time.Millisecond
	}
	if r.Intn("cfg", 3) != 0 {
		c.PDrop = r.Float("cfg") * 0.2
		c.PDup = r.Float("cfg") * 0.1
		c.Jitter = time.Duration(r.Intn("cfg", 20)) * time.Millisecond
	}
	mp := NewPairMaybeStack(r, n, 8, "C16")
	if mp == nil {
		return
	}
	defer mp.Teardown(r)
	fns := []string{"tubes.(*Reliable).send", "tubes.(*Reliable)", "tubes.(*sender)", "tubes.(*Muxer).Stop", "tubes.closeTubeHelper", "tubes.(*Muxer)", "tubes."}
	r.ArmYields([]string{fns[r.Intn("cfg", len(fns))]}, 1+r.Intn("cfg", 6), 1+r.Intn("cfg", 40), []float64{0.02, 0.05, 0.2, 1}[r.Intn("cfg", 4)])
	r.YieldsOn(true)

	dieAt := time.Duration(-1)
	n.Blocked = func(src, dst *net.UDPAddr, now time.Duration) bool { return dieAt >= 0 && now >= dieAt }

	writerMux, readerMux := mp.A, mp.B
	if r.Intn("cfg", 2) == 0 {
		writerMux, readerMux = mp.B, mp.A
	}
	t, err := writerMux.CreateReliableTube(tubes.TubeType(3))
	if err != nil {
		r.Violate("C16/nofault/create-failed", "%v", err)
		return
	}
	var peer tubes.Tube
	if !WithTimeout(r, time.Minute, func() { peer, err = readerMux.Accept() }) || err != nil || peer == nil {
		r.Probe("accept-did-not-complete")
		r.NoLeakCheck = true
		mp.StopBoth(r, 2*time.Minute)
		return
	}
	total := 200000 + r.Intn("cfg", 1500000)
	salt := r.U64("salt")
	reads := r.Intn("cfg", 4) != 0 // the reader application may also be stuck
	writeDone := make(chan struct{})
	r.Go(func() {
		defer close(writeDone)
		b := make([]byte, total)
		streamFill(b, salt, 0)
		maxChunk := []int{300000, 40000, 2000, 1200, 300}[r.Intn("w", 5)] // small writes = many frames = a long transfer
		for off := 0; off < total; {
			k := 1 + r.Intn("w", maxChunk)
			if off+k > total {
				k = total - off
			}
			if _, err := t.Write(b[off : off+k]); err != nil {
				return
			}
			off += k
		}
	})
	readDone := make(chan struct{})
	r.Go(func() {
		defer close(readDone)
		if !reads {
			return
		}
		buf := make([]byte, 65536)
		off := int64(0)
		for {
			k, err := peer.Read(buf)
			if k > 0 {
				if bad := streamCheck(buf[:k], salt, off); bad >= 0 {
					r.Violate("C16/read-returns-foreign-bytes", "bulk reader: bytes at stream offset %d were not written there", off+int64(bad))
					return
				}
				off += int64(k)
			}
			if err != nil {
				if err != io.EOF {
					r.Logf("reader: %v after %d bytes", err, off)
				}
				return
			}
		}
	})
	// the event in the middle of the transfer
	time.Sleep(time.Duration(10+r.Intn("cfg", 2500)) * time.Millisecond)
	ev := r.Intn("cfg", 7)
	evName := []string{"writer muxer Stop", "reader muxer Stop", "network dies, then writer Close", "writer Close then Stop", "reader Close then writer Stop", "both Stop", "two Stop calls on the writer muxer, the second a little later, over a slow socket"}[ev]
	r.SetCfg("event", evName)
	stop := func(name string, m *tubes.Muxer) {
		r.Obligation(1)
		if !WithTimeout(r, 2*time.Minute, func() { m.Stop() }) {
			r.NoLeakCheck = true
			r.Violate("C16/stop-does-not-return", "bulk transfer of %d bytes interrupted by %q: %s muxer Stop did not return within 2 simulated minutes; goroutines:\n  %s", total, evName, name, BlockedSummary())
		}
	}
	closeT := func(name string, x tubes.Tube) {
		r.Obligation(1)
		if !WithTimeout(r, 30*time.Second, func() { x.Close() }) {
			r.NoLeakCheck = true
			class := "C16/close-does-not-return"
			if tubes.VerifState(x) == "created" || !tubes.VerifInitiated(x) {
				class += "/tube-never-initiated" // (the listed finding D23)
			}
			r.Violate(class, "bulk transfer interrupted: %s Close did not return within 30 simulated seconds (state %s); goroutines:\n  %s", name, tubes.VerifState(x), BlockedSummary())
		}
	}
	switch ev {
	case 0:
		stop("writer", writerMux)
	case 1:
		stop("reader", readerMux)
	case 2:
		dieAt = r.Now()
		time.Sleep(time.Duration(r.Intn("cfg", 3000)) * time.Millisecond)
		closeT("writer tube", t)
		time.Sleep(time.Duration(r.Intn("cfg", 20000)) * time.Millisecond)
	case 3:
		closeT("writer tube", t)
		time.Sleep(time.Duration(r.Intn("cfg", 1500)) * time.Millisecond)
		stop("writer", writerMux)
	case 4:
		closeT("reader tube", peer)
		time.Sleep(time.Duration(r.Intn("cfg", 1500)) * time.Millisecond)
		stop("writer", writerMux)
	case 6:
		// Stop is called twice (the application's call and, say, the one the muxer starts for itself after a
		// transport error), over a socket that holds writers up.  Whichever call returns: the shutdown is complete
		// then - the transport under the muxer is closed.
		wep := mp.EA
		if writerMux == mp.B {
			wep = mp.EB
		}
		if !mp.Stack {
			hold := time.Duration(100+r.Intn("cfg", 1500)) * time.Millisecond
			wep.WriteStall = func() time.Duration { return hold }
		}
		second := time.Duration(r.Intn("cfg", 2500)) * time.Millisecond
		done := make(chan struct{}, 2)
		call := func(name string, after time.Duration) {
			r.Go(func() {
				defer func() { done <- struct{}{} }()
				time.Sleep(after)
				stop(name, writerMux)
				r.Obligation(1)
				// the muxer's own goroutines (the two its start routine creates) are gone when Stop returns; the
				// other muxer, which nobody has stopped yet, still has its two
				time.Sleep(time.Millisecond) // (a goroutine that has handed over its result still has to return)
				stacks, _ := bubbleStacks()
				if nw := strings.Count(stacks, "created by hop.computer/hop/tubes.(*Muxer).start"); nw > 2 && !r.Failed() {
					r.NoLeakCheck = true
					r.Violate("C16/stop-returned-before-shutdown-completed", "the %s Stop call on the writer muxer returned while that muxer's sender/receiver goroutines were still running (%d goroutines started by Muxer.start are alive, 2 belong to the other muxer; transport closed: %v): %s", name, nw, wep.IsClosed(), evName)
				}
			})
		}
		call("first", 0)
		call("second", second)
		<-done
		<-done
	default:
		done := make(chan struct{}, 2)
		r.Go(func() { stop("writer", writerMux); done <- struct{}{} })
		r.Go(func() { stop("reader", readerMux); done <- struct{}{} })
		<-done
		<-done
	}
	if r.Failed() {
		return
	}
	// everything is torn down; the application calls come back
	mp.StopBoth(r, 2*time.Minute)
	for name, ch := range map[string]chan struct{}{"Write": writeDone, "Read": readDone} {
		select {
		case <-ch:
		case <-time.After(2 * time.Minute):
			r.NoLeakCheck = true
			r.Violate("C16/call-blocked-after-stop", "%s on the bulk tube is still blocked 2 simulated minutes after both muxers were stopped; goroutines:\n  %s", name, BlockedSummary())
			return
		}
	}
	r.Sample = append(r.Sample, fmt.Sprintf("bytes=%d event=%d reads=%v", total, ev, reads))
	time.Sleep(5 * time.Second)
}
