package sim

import (
	"fmt"
	"net"
	"time"

	"hop.computer/hop/transport"
)

// C02 — any in-flight change to a handshake aborts it; success means equal fresh keys.
//
// The run index enumerates the single-fault space: (alteration kind, message
// type, byte position / truncation length, mask family).  Positions beyond the
// actual message length make a vacuous run (still a completed handshake whose
// keys are compared).

func init() {
	Register(&Scenario{Name: "tamper-sweep", Property: "C02", Fn: scTamper})
}

var tamperMsgs = []struct {
	typ      byte
	name     string
	hidden   bool
	toServer bool
}{
	{0x01, "ClientHello", false, true},
	{0x02, "ServerHello", false, false},
	{0x03, "ClientAck", false, true},
	{0x04, "ServerAuth", false, false},
	{0x05, "ClientAuth", false, true},
	{0x08, "ClientRequestHidden", true, true},
	{0x09, "ServerResponseHidden", true, false},
}

// TamperPositions is the number of byte positions enumerated per message type
// (larger than every handshake message of the simulated configuration).
const TamperPositions = 2048

// TamperSweepRuns is the size of one complete sweep of the index space.
const TamperSweepRuns = 4 * 7 * TamperPositions

type sessKeys struct {
	id       [4]byte
	c2s, s2c [16]byte
}

func scTamper(r *Run) {
	i := r.Index
	slot := int(i % 4)
	j := i / 4
	m := tamperMsgs[j%7]
	pos := int((j / 7) % TamperPositions)
	sweep := int(j / (7 * TamperPositions))
	// what the slot does: 0 = xor with the sweep's mask family; 1 = truncate to pos bytes (first sweep), afterwards
	// xor with a seeded mask; 2 = replacement variants (pos < 4), otherwise xor with a seeded mask; 3 = the same
	// mask on two neighbouring bytes
	kind := 0 // 0 xor, 1 truncate, 2 replace, 3 xor two bytes
	seeded := func() byte { return byte(1 + r.Intn("mask", 255)) }
	var mask byte
	switch sweep {
	case 0:
		mask = 1 << (uint(pos) % 8)
	case 1:
		mask = 0x80
	case 2:
		mask = 0xff
	case 3:
		mask = 0x01
	default:
		mask = seeded()
	}
	switch slot {
	case 1:
		switch {
		case sweep == 0:
			kind = 1
		case sweep%2 == 1:
			kind = 4 // truncation again, this time right behind a full copy of the datagram from another address
		default:
			mask = seeded()
		}
	case 2:
		if pos < 4 {
			kind = 2
		} else if m.typ == 0x02 && pos < 12 {
			kind = 5 // the ServerHello of a handshake that somebody else ran with a COPY of the victim's ClientHello
		} else {
			mask = seeded()
		}
	case 3:
		kind = 3
		if sweep == 0 {
			mask = 0xff
		} else if sweep == 1 {
			mask = 1 << (uint(pos) % 8)
		}
	}
	kindName := []string{"xor", "truncate", "replace", "xor2", "truncate-primed", "cookie-swap"}[kind]
	r.SetCfg("alter", fmt.Sprintf("%s %s pos=%d mask=%02x sweep=%d", kindName, m.name, pos, mask, sweep))

	n := NewNet(r)
	defer n.Stop()
	n.Cfg.Latency = time.Millisecond
	srv := StartServer(r, n, ServerOpts{Hidden: m.hidden, HSTimeout: 2 * time.Second})
	reg := NewHandleRegistry(r, srv.Srv)
	defer srv.Srv.Close()

	victimAddr := Addr(10, 4000)
	otherAddr := Addr(11, 4001)
	// cookie swap: where the victim and the party that copies its ClientHello sit (the cookie in a ServerHello is
	// bound to the address it was issued to, whatever the address family)
	var copyAddr *net.UDPAddr
	if kind == 5 {
		v6 := func(host string, port int) *net.UDPAddr { return &net.UDPAddr{IP: net.ParseIP(host), Port: port} }
		switch (pos - 4) % 4 {
		case 0: // IPv4, other host, same port
			copyAddr = Addr(12, 4000)
		case 1: // IPv6, other host, same port
			victimAddr, copyAddr = v6("2001:db8::a", 4000), v6("2001:db8::b", 4000)
		case 2: // IPv6, same host, other port
			victimAddr, copyAddr = v6("2001:db8::a", 4000), v6("2001:db8::a", 4001)
		default: // IPv6 victim, IPv4 copier, same port
			victimAddr, copyAddr = v6("2001:db8::a", 4000), Addr(12, 4000)
		}
	}
	var heldSH *Dgram
	var copySH []byte
	var all []sessKeys

	// complete reports the keys of a handshake both sides completed.
	complete := func(name string, tc *TClient) bool {
		cs, ok := tc.C.VerifSession()
		if !ok {
			return false
		}
		h := reg.ByID(cs.ID, time.Second)
		if h == nil {
			return false
		}
		hs, _ := h.VerifSession()
		r.Obligation(1)
		if cs.ID != hs.ID || cs.C2S != hs.C2S || cs.S2C != hs.S2C {
			r.Violate("C02/keys-differ", "%s: both sides completed but hold different state: client id=%x c2s=%x s2c=%x, server id=%x c2s=%x s2c=%x", name, cs.ID, cs.C2S, cs.S2C, hs.ID, hs.C2S, hs.S2C)
		}
		var zero [16]byte
		if cs.C2S == cs.S2C || cs.C2S == zero || cs.S2C == zero {
			r.Violate("C02/directional-keys-equal", "%s: directional keys are not distinct and non-zero: c2s=%x s2c=%x", name, cs.C2S, cs.S2C)
		}
		for _, o := range all {
			if o.c2s == cs.C2S || o.s2c == cs.S2C || o.c2s == cs.S2C || o.s2c == cs.C2S {
				r.Violate("C02/keys-shared-between-sessions", "%s: session %x shares a key with independent session %x", name, cs.ID, o.id)
			}
		}
		all = append(all, sessKeys{cs.ID, cs.C2S, cs.S2C})
		// black box: the first data packet decrypts, its reflection does not
		msg := []byte("first-data-packet")
		if err := tc.C.WriteMsg(msg); err == nil {
			buf := make([]byte, 100)
			h.SetReadDeadline(time.Now().Add(time.Second))
			k, err := h.ReadMsg(buf)
			if err != nil || string(buf[:k]) != string(msg) {
				r.Violate("C02/first-packet-undecryptable", "%s: first data packet after a completed handshake was not delivered: %v", name, err)
			}
		}
		return true
	}

	// the adversary may deliver its altered datagram several times (a receiver that tolerates a few bad
	// datagrams must still never act on one)
	copies := 1
	if r.Intn("copies", 4) == 0 {
		copies = 2 + r.Intn("copies", 7)
	}
	deliver := func(c *Dgram, dly time.Duration) {
		for k := 0; k < copies; k++ {
			x := c
			if k > 0 {
				x = c.clone()
				x.Mut = c.Mut + fmt.Sprintf(" (copy %d)", k+1)
				if kind == 0 && r.Intn("copies", 2) == 0 && pos < len(x.Data) {
					x.Data[pos] ^= byte(1 + r.Intn("copies", 255)) // another wrong value at the same place
					if x.Data[pos] == c.Data[pos]^mask {
						x.Data[pos] ^= 0x55 // (never the genuine byte)
					}
				}
			}
			n.Redeliver(x, dly+time.Duration(k)*time.Duration(1+r.Intn("copies", 300))*time.Microsecond)
		}
		if copies > 1 {
			r.CountFault("altered-datagram-repeated", int64(copies-1))
		}
	}

	// a second, independent handshake supplies the datagrams for replacement
	// and the key-distinctness obligation
	captured := map[byte][]byte{}
	var victimSeen map[byte]int
	applied := ""
	n.Tap = func(d *Dgram) bool {
		if len(d.Data) == 0 {
			return true
		}
		t := d.Data[0]
		fromOther := d.Src.String() == otherAddr.String() || d.Dst.String() == otherAddr.String()
		if fromOther {
			if _, ok := captured[t]; !ok {
				captured[t] = append([]byte(nil), d.Data...)
			}
			return true
		}
		if victimSeen == nil {
			return true
		}
		if kind == 5 {
			switch {
			case t == 0x01 && d.Src.String() == victimAddr.String() && victimSeen[0x01] == 0:
				// the copy of the victim's ClientHello, sent from the other address right behind the original
				victimSeen[0x01]++
				n.Inject(copyAddr, d.Dst, append([]byte(nil), d.Data...), time.Microsecond, "copy of the victim's ClientHello from another address")
				return true
			case t == 0x02 && d.Dst.String() == victimAddr.String() && heldSH == nil && applied == "":
				if !r.Fault("cookie-swap", m.name, 1) {
					return true
				}
				heldSH = d.clone() // held back until the answer to the copy is there
				if copySH == nil {
					return false
				}
				fallthrough
			case t == 0x02 && d.Dst.String() == copyAddr.String() && applied == "":
				if d.Dst.String() == copyAddr.String() {
					copySH = append([]byte(nil), d.Data...)
				}
				if heldSH == nil {
					return false // (nobody listens at the copier's address)
				}
				c := heldSH
				c.Data = append([]byte(nil), copySH...)
				c.Mut = "replaced by the ServerHello issued to " + copyAddr.String()
				applied = fmt.Sprintf("ServerHello for %s replaced by the ServerHello that the server issued to %s in answer to a copy of the same ClientHello", victimAddr, copyAddr)
				deliver(c, n.Cfg.Latency)
				return false
			}
			return true
		}
		isVictim := d.Src.String() == victimAddr.String() || d.Dst.String() == victimAddr.String()
		if !isVictim || t != m.typ || applied != "" {
			return true
		}
		victimSeen[t]++
		if victimSeen[t] != 1 {
			return true
		}
		switch kind {
		case 0:
			if pos >= len(d.Data) {
				return true
			}
			if !r.Fault("xor", m.name, 1) {
				return true
			}
			c := d.clone()
			c.Data[pos] ^= mask
			c.Mut = fmt.Sprintf("xor@%d^%02x", pos, mask)
			applied = fmt.Sprintf("%s of %d bytes: byte %d xor %02x", m.name, len(d.Data), pos, mask)
			deliver(c, n.Cfg.Latency)
			return false
		case 3:
			if pos >= len(d.Data) || len(d.Data) < 2 {
				return true
			}
			if !r.Fault("xor2", m.name, 1) {
				return true
			}
			c := d.clone()
			q := pos + 1
			if q >= len(c.Data) {
				q = pos - 1
			}
			c.Data[pos] ^= mask
			c.Data[q] ^= mask
			c.Mut = fmt.Sprintf("xor@%d,%d^%02x", pos, q, mask)
			applied = fmt.Sprintf("%s of %d bytes: bytes %d and %d xor %02x", m.name, len(d.Data), pos, q, mask)
			deliver(c, n.Cfg.Latency)
			return false
		case 1, 4:
			if pos >= len(d.Data) {
				return true
			}
			if !r.Fault("truncate", m.name, 1) {
				return true
			}
			c := d.clone()
			c.Data = c.Data[:pos]
			c.Mut = fmt.Sprintf("trunc@%d", pos)
			applied = fmt.Sprintf("%s of %d bytes truncated to %d", m.name, len(d.Data), pos)
			if kind == 4 && m.toServer && !m.hidden {
				// the server has just seen the complete datagram from an address it does not belong to (refused, or
				// answered to that address): whatever it keeps in its receive buffer is the right bytes.  (Only for
				// the discoverable client-to-server messages: a client does not look at the source address, and a
				// hidden request is a complete handshake of its own.)
				full := d.clone()
				full.From = Addr(12, 4012)
				full.Mut = "verbatim copy from another address"
				n.Redeliver(full, n.Cfg.Latency)
				applied += " (right behind a full copy from another address)"
			}
			deliver(c, n.Cfg.Latency+time.Microsecond)
			return false
		default:
			src := captured[t]
			if pos >= 4 || src == nil { // a handful of replacement variants per message type
				return true
			}
			if !r.Fault("replace", m.name, 1) {
				return true
			}
			c := d.clone()
			c.Data = append([]byte(nil), src...)
			c.Mut = "replaced"
			applied = fmt.Sprintf("%s replaced by the %s of an independent handshake (variant %d)", m.name, m.name, pos)
			deliver(c, n.Cfg.Latency)
			return false
		}
	}

	// variants of the replace kind: 0/1 other client's handshake ran before, 2/3 same address earlier attempt
	sameAddr := kind == 2 && pos >= 2
	oaddr := otherAddr
	if sameAddr {
		oaddr = victimAddr
		otherAddr = victimAddr
	}
	other := NewTClient(r, n, srv, ClientOpts{Addr: oaddr, Hidden: m.hidden, HSTimeout: 2 * time.Second})
	if err := other.C.Handshake(); err != nil {
		r.Violate("C02/nofault/handshake-failed", "untouched handshake failed on a faithful network: %v", err)
		return
	}
	if !complete("independent handshake", other) {
		r.Violate("C02/nofault/handshake-incomplete", "untouched handshake did not complete on both sides")
		return
	}
	if sameAddr {
		other.C.Close()
		other.EP.Close()
		time.Sleep(3 * time.Second) // let the server forget the first attempt's handshake entry
		otherAddr = Addr(11, 4001)
	}

	victimSeen = map[byte]int{}
	victim := NewTClient(r, n, srv, ClientOpts{Addr: victimAddr, Hidden: m.hidden, HSTimeout: 2 * time.Second})
	var err error
	if !WithTimeout(r, 30*time.Second, func() { err = victim.C.Handshake() }) {
		// (a handshake call that never returns is judged by C17; here it only means "not completed")
		r.Probe("handshake-call-did-not-return")
		victim.C.Close()
		err = fmt.Errorf("Handshake() did not return within 30 simulated seconds")
	}
	time.Sleep(3 * time.Second)
	clientDone := err == nil
	serverDone := false
	if cs, ok := victim.C.VerifSession(); ok {
		serverDone = srv.Srv.VerifEstablished(cs.ID)
	}
	// the server may have completed a handshake for the victim's address under another id
	for _, h := range reg.All {
		vs, _ := h.VerifSession()
		if vs.Remote != nil && vs.Remote.String() == victimAddr.String() {
			known := false
			for _, o := range all {
				if o.id == vs.ID {
					known = true
				}
			}
			if !known {
				serverDone = true
			}
		}
	}
	if applied == "" {
		r.Probe("vacuous-position-beyond-message")
		if err != nil {
			r.Violate("C02/nofault/handshake-failed", "untouched handshake failed on a faithful network: %v", err)
		} else {
			complete("untouched handshake", victim)
		}
	} else {
		r.Obligation(1)
		r.InFlightFault()
		if copies > 1 {
			applied += fmt.Sprintf(", delivered %d times", copies)
		}
		if m.toServer && serverDone && kind == 2 && m.typ == 0x08 {
			// A hidden-mode request is a complete one-message handshake: substituting the
			// request of another handshake makes the server complete THAT (replayed)
			// handshake again, not the one whose datagram was replaced.  Replay of hidden
			// requests inside the freshness window is outside the statement of C02.
			r.Probe("hidden-request-replay-completed-donor-handshake")
			serverDone = false
		}
		if m.toServer && serverDone {
			r.Violate("C02/server-completed-altered-handshake", "%s; the server (receiver of the altered datagram) completed the handshake and published the connection (client result: %v)", applied, err)
		}
		if !m.toServer && clientDone {
			r.Violate("C02/client-completed-altered-handshake", "%s; the client (receiver of the altered datagram) reported success", applied)
		}
		if clientDone && serverDone {
			complete("altered handshake", victim)
		}
		if len(r.Sample) == 0 {
			r.Sample = append(r.Sample, applied+fmt.Sprintf(" -> client err=%v serverDone=%v", err, serverDone))
		}
	}
	victim.C.Close()
	other.C.Close()
	_ = transport.HeaderLen
}
