package sim

import (
	"fmt"
	"sync"
	"time"

	"hop.computer/hop/tubes"
)

// C09, accept backlog — "each remotely opened tube is offered to the acceptor exactly once", with an
// application that is slow to accept: one side opens more tubes than the muxer's accept queue holds
// before the other side calls Accept for the first time.  Afterwards the acceptor drains.  Every
// tube whose opener saw it come up (its open request was answered, so the peer has it) must come out
// of Accept exactly once, with the identifier, reliability and type its opener chose.

func init() {
	Register(&Scenario{Name: "accept-backlog", Property: "C09", Fn: scBacklog})
}

func scBacklog(r *Run) {
	n := NewNet(r)
	defer n.Stop()
	n.Quiet = true
	c := &n.Cfg
	c.Latency = time.Duration(1+r.Intn("cfg", 10)) * time.Millisecond
	if r.Intn("cfg", 2) == 0 {
		c.Jitter = time.Duration(r.Intn("cfg", 10)) * time.Millisecond
		c.PDrop = r.Float("cfg") * 0.05
		c.PDup = r.Float("cfg") * 0.05
	}
	mp := NewMuxPair(r, n, 0)
	opener, acceptor, oname := mp.A, mp.B, "A"
	if r.Intn("cfg", 2) == 0 {
		opener, acceptor, oname = mp.B, mp.A, "B"
	}
	// how many tubes: around the size of the accept queue (128) and beyond it
	nRel := []int{20, 100, 120, 127, 128, 17, 33, 65}[r.Intn("cfg", 8)]
	nUnrel := []int{0, 1, 3, 20, 100}[r.Intn("cfg", 5)]
	r.SetCfg("opens", fmt.Sprintf("%d reliable + %d unreliable by %s", nRel, nUnrel, oname))
	type opened struct {
		t   tubes.Tube
		typ tubes.TubeType
	}
	var mu sync.Mutex
	var all []opened
	var wg sync.WaitGroup
	type key struct {
		rel bool
		id  byte
	}
	accepted := map[key]int{}
	acceptedType := map[key]tubes.TubeType{}
	note := func(t tubes.Tube) bool {
		if t == nil || t == tubes.Tube((*tubes.Reliable)(nil)) || t == tubes.Tube((*tubes.Unreliable)(nil)) {
			r.Violate("C09/accept-returned-nothing", "Accept returned no tube and no error (a queue position that holds nothing)")
			return false
		}
		k := key{t.IsReliable(), t.GetID()}
		mu.Lock()
		accepted[k]++
		acceptedType[k] = t.Type()
		mu.Unlock()
		return true
	}
	// the session is not new: a few tubes were opened and accepted before (the accept queue has been used and
	// emptied; whatever position it keeps is no longer at its start)
	if r.Intn("warm", 2) == 0 {
		k1 := 1 + r.Intn("warm", 30)
		for i := 0; i < k1; i++ {
			typ := tubes.TubeType(1 + r.Intn("warm", 7))
			var t tubes.Tube
			var err error
			if r.Intn("warm", 3) != 0 {
				var rt *tubes.Reliable
				rt, err = opener.CreateReliableTube(typ)
				t = rt
			} else {
				var ut *tubes.Unreliable
				ut, err = opener.CreateUnreliableTube(typ)
				t = ut
			}
			if err != nil {
				continue
			}
			all = append(all, opened{t, typ})
			var at tubes.Tube
			if !WithTimeout(r, time.Minute, func() { at, err = acceptor.Accept() }) || err != nil {
				r.Probe("warm-up-accept-did-not-complete")
				break
			}
			if !note(at) {
				return
			}
		}
		r.CountFault("accept-queue-used-before", 1)
	}
	workers := 1 + r.Intn("cfg", 3)
	for w := 0; w < workers; w++ {
		w := w
		wg.Add(1)
		r.Go(func() {
			defer wg.Done()
			key := fmt.Sprintf("open%d", w)
			for i := w; i < nRel+nUnrel; i += workers {
				typ := tubes.TubeType(1 + r.Intn(key, 7))
				var t tubes.Tube
				var err error
				if i < nRel {
					var rt *tubes.Reliable
					rt, err = opener.CreateReliableTube(typ)
					t = rt
				} else {
					var ut *tubes.Unreliable
					ut, err = opener.CreateUnreliableTube(typ)
					t = ut
				}
				if err != nil {
					r.Probe("create-failed")
					continue
				}
				mu.Lock()
				all = append(all, opened{t, typ})
				mu.Unlock()
				if r.Intn(key, 4) == 0 {
					time.Sleep(time.Duration(r.Intn(key, 5)) * time.Millisecond)
				}
			}
		})
	}
	if !WithTimeout(r, 2*time.Minute, func() { wg.Wait() }) {
		// (Create blocks while the peer does not answer; the peer's receiver may be held up by its full
		// accept queue.  The acceptor below releases it.)
		r.Probe("create-still-blocked-when-accepting-starts")
	}
	// the application is slow: it starts accepting only now
	time.Sleep(time.Duration(r.Intn("cfg", 5000)) * time.Millisecond)
	idle := make(chan struct{}, 1)
	got := make(chan tubes.Tube, 1024)
	r.Go(func() {
		for {
			t, err := acceptor.Accept()
			if err != nil {
				return
			}
			got <- t
		}
	})
	r.Go(func() {
		for {
			select {
			case t := <-got:
				if !note(t) {
					idle <- struct{}{}
					return
				}
			case <-time.After(20 * time.Second):
				idle <- struct{}{}
				return
			}
		}
	})
	<-idle
	WithTimeout(r, 2*time.Minute, func() { wg.Wait() })
	mu.Lock()
	up := 0
	for _, o := range all {
		k := key{o.t.IsReliable(), o.t.GetID()}
		st := tubes.VerifState(o.t)
		if st != "initiated" {
			r.Probe("opened-tube-not-up/" + st)
			continue
		}
		up++
		r.Obligation(1)
		switch a := accepted[k]; {
		case a == 0:
			r.Violate("C09/opened-tube-never-offered", "%s opened %s%d (type %d) and the peer answered the open request (the opener's end is up and writable), but Accept on the other side never returned it: %d reliable + %d unreliable tubes were opened before the first Accept call, %d tubes were accepted in the end",
				oname, relName(k.rel), k.id, o.typ, nRel, nUnrel, len(accepted))
		case a > 1:
			r.Violate("C09/duplicate-accept", "%s%d was returned by Accept %d times", relName(k.rel), k.id, a)
		case acceptedType[k] != o.typ:
			r.Violate("C09/accepted-type-differs", "%s%d was opened with type %d and accepted with type %d", relName(k.rel), k.id, o.typ, acceptedType[k])
		}
		if r.Failed() {
			break
		}
	}
	r.Sample = append(r.Sample, fmt.Sprintf("opened=%d up=%d accepted=%d", len(all), up, len(accepted)))
	mu.Unlock()
	r.NoLeakCheck = true
	mp.StopBoth(r, 2*time.Minute)
	time.Sleep(5 * time.Second)
}
