package sim

import "sort"

// Aggregate is what a worker reports for a batch of runs.
type Aggregate struct {
	Runs       int64            `json:"runs"`
	SimS       float64          `json:"sim_s"`
	Events     int64            `json:"events"`
	Faults     map[string]int64 `json:"faults"`
	Probes     map[string]int64 `json:"probes"`
	Oblig      int64            `json:"oblig"`
	InFlight   int64            `json:"inflight"`
	Nontrivial int64            `json:"nontrivial"`
	FaultFree  int64            `json:"fault_free_runs"`
	LeakedRuns int64            `json:"leaked_runs"`
	ViolRuns   int64            `json:"viol_runs"`
	Hashes     []string         `json:"hashes"`
	NTHashes   []string         `json:"nt_hashes"`
	Samples    []map[string]any `json:"samples"`
	WallS      float64          `json:"wall_s"`
	hashSet    map[string]bool
	ntSet      map[string]bool
}

// NewAggregate returns an empty aggregate.
func NewAggregate() *Aggregate {
	return &Aggregate{Faults: map[string]int64{}, Probes: map[string]int64{}, hashSet: map[string]bool{}, ntSet: map[string]bool{}}
}

// Add merges one run.  A run is non-trivial if at least one fault, adversarial
// action or armed yield fired in it and its oracle evaluated at least one
// non-vacuous obligation.
func (a *Aggregate) Add(r *Result) {
	a.Runs++
	a.SimS += float64(r.SimNS) / 1e9
	a.Events += r.Events
	nf := int64(0)
	for k, v := range r.Faults {
		a.Faults[k] += v
		nf += v
	}
	for k, v := range r.Probes {
		a.Probes[k] += v
	}
	a.Oblig += r.Oblig
	a.InFlight += r.InFlight
	if nf == 0 {
		a.FaultFree++
	}
	if !a.hashSet[r.Hash] {
		a.hashSet[r.Hash] = true
		a.Hashes = append(a.Hashes, r.Hash)
	}
	if nf > 0 && r.Oblig > 0 {
		a.Nontrivial++
		if !a.ntSet[r.Hash] {
			a.ntSet[r.Hash] = true
			a.NTHashes = append(a.NTHashes, r.Hash)
		}
	}
	if r.Leaked > 0 {
		a.LeakedRuns++
	}
	if len(r.Viol) > 0 {
		a.ViolRuns++
	}
	if len(a.Samples) < 2 && (len(r.Sample) > 0 || len(r.Cfg) > 0) {
		a.Samples = append(a.Samples, map[string]any{"run": r.Index, "cfg": r.Cfg, "trace": r.Sample, "faults": r.Faults, "events": r.Events, "sim_ns": r.SimNS})
	}
}

// ScenarioNames lists the registered scenarios.
func ScenarioNames() []string {
	out := []string{}
	for n := range scenarios {
		out = append(out, n)
	}
	sort.Strings(out)
	return out
}

// Lookup finds a scenario by name.
func Lookup(name string) *Scenario { return scenarios[name] }
