package sim

import (
	cryptorand "crypto/rand"
	"fmt"
	"net"
	"runtime"
	"time"

	"hop.computer/hop/certs"
	"hop.computer/hop/keys"
	"hop.computer/hop/transport"
)

// C19 — the server is stateless before a valid cookie and silent in hidden mode.

func init() {
	Register(&Scenario{Name: "cookie-stateless", Property: "C19", Fn: scCookie})
	Register(&Scenario{Name: "hidden-silence", Property: "C19", Fn: scHiddenSilence})
}

const (
	kemKeyLen = 800 // ML-KEM-512 public key
	kemCtLen  = 768
	cookieLen = 64
)

type minted struct {
	instance int
	epoch    int
	addr     string
	kem      string
}

func scCookie(r *Run) {
	n := NewNet(r)
	defer n.Stop()
	n.Cfg.Latency = time.Millisecond
	n.Step = true
	pki := NewPKI("ca")
	key := newX25519()
	kem, err := keys.GenerateKEMKeyPair(cryptorand.Reader)
	must(err)
	leaf := pki.Leaf(key.Public, 24*time.Hour, certs.DNSName("server.sim"))
	srvAddr := Addr(1, 77)
	instance := 0
	var srv *transport.Server
	var ep *Endpoint
	var started time.Duration
	start := func() {
		instance++
		ep = n.Listen(fmt.Sprintf("server#%d", instance), srvAddr, nil)
		s, err := transport.NewServer(ep, transport.ServerConfig{KeyPair: key, KEMKeyPair: kem, Certificate: leaf, Intermediate: pki.Int,
			HandshakeTimeout: 3 * time.Second, ClientVerify: &transport.VerifyConfig{InsecureSkipVerify: true}})
		must(err)
		srv = s
		started = r.Now()
		go s.Serve()
	}
	start()
	epoch := func() int { return int((r.Now() - started) / (2 * time.Minute)) }

	cookies := map[string]minted{}
	type obs struct {
		saFor map[uint64]bool // deliveries that caused a ServerAuth
	}
	o := obs{saFor: map[uint64]bool{}}
	var lastSH []byte
	n.OnSend = func(d *Dgram) {
		if d.Src.String() != srvAddr.String() || len(d.Data) == 0 {
			return
		}
		switch d.Data[0] {
		case 0x02: // ServerHello: remember what the cookie was minted for
			if len(d.Data) >= 4+kemCtLen+cookieLen && d.Cause != nil && len(d.Cause.Data) >= 4+kemKeyLen {
				ck := string(d.Data[4+kemCtLen : 4+kemCtLen+cookieLen])
				cookies[ck] = minted{instance, epoch(), d.Dst.String(), string(d.Cause.Data[4 : 4+kemKeyLen])}
				lastSH = append([]byte(nil), d.Data...)
			}
		case 0x04:
			if d.Cause != nil {
				o.saFor[d.Cause.ID] = true
				// judge at once: which ClientAck made the server answer?
				ca := d.Cause
				r.Obligation(1)
				okCookie := false
				why := "cookie unknown to this run (never minted)"
				if len(ca.Data) >= 4+32+kemKeyLen+cookieLen {
					ck := string(ca.Data[4+32+kemKeyLen : 4+32+kemKeyLen+cookieLen])
					if m, ok := cookies[ck]; ok {
						switch {
						case m.instance != instance:
							why = fmt.Sprintf("cookie minted by server instance %d, this is instance %d", m.instance, instance)
						case m.epoch != epoch():
							why = fmt.Sprintf("cookie minted in key epoch %d, current epoch %d", m.epoch, epoch())
						case m.addr != ca.From.String():
							why = fmt.Sprintf("cookie minted for %s, acknowledgement came from %s", m.addr, ca.From)
						case m.kem != string(ca.Data[4+32:4+32+kemKeyLen]):
							why = "cookie minted for another client KEM key"
						default:
							okCookie = true
						}
					}
				}
				if !okCookie {
					r.Violate("C19/clientack-accepted-with-foreign-cookie", "server answered a ClientAck (#%d from %s, %s) with a ServerAuth: %s", ca.ID, ca.From, ca.Mut, why)
				}
			}
		}
	}
	// statelessness: after every ClientHello delivery the tables and the goroutine count are unchanged
	baseG := -1
	preHS, preSS, preFP := 0, 0, 0
	n.OnDeliver = func(d *Dgram, e *Endpoint) {
		if d.Dst.String() == srvAddr.String() && len(d.Data) > 0 && d.Data[0] == 0x01 {
			preHS, preSS = srv.VerifTables()
			preFP = srv.VerifFootprint()
		}
	}
	n.AfterStep = func(d *Dgram) {
		if d.Dst.String() != srvAddr.String() || len(d.Data) == 0 || d.Data[0] != 0x01 {
			return
		}
		hsN, ssN := srv.VerifTables()
		g := runtime.NumGoroutine()
		r.Obligation(1)
		if hsN > preHS || ssN > preSS {
			r.Violate("C19/state-kept-for-client-hello", "a ClientHello (#%d from %s) grew the server's tables: pending handshakes %d -> %d, sessions %d -> %d", d.ID, d.From, preHS, hsN, preSS, ssN)
		}
		// ... and so is everything else the server object holds, in whatever field (entries of maps, queued
		// channel elements, slice elements reachable from it)
		if fp := srv.VerifFootprint(); fp > preFP && !r.Failed() {
			r.Violate("C19/state-kept-for-client-hello/footprint", "a ClientHello (#%d from %s) left something behind in the server: the containers reachable from the server object held %d elements before it and %d after", d.ID, d.From, preFP, fp)
		}
		if baseG < 0 {
			baseG = g
		} else if g > baseG {
			r.Violate("C19/goroutines-grow-on-client-hello", "goroutines grew from %d to %d after ClientHello #%d", baseG, g, d.ID)
			baseG = g
		}
	}

	// phase 1: many valid ClientHellos from many addresses
	nHello := 20 + r.Intn("cfg", 300)
	atkKeys := []*keys.KEMKeyPair{}
	for i := 0; i < 3; i++ {
		kp, err := keys.GenerateKEMKeyPair(cryptorand.Reader)
		must(err)
		atkKeys = append(atkKeys, kp)
	}
	hello := func(kp *keys.KEMKeyPair) []byte {
		b, err := transport.VerifAdvClientHello(kp)
		must(err)
		return b
	}
	for i := 0; i < nHello; i++ {
		if !r.Op("hello") {
			continue
		}
		from := drawAddr(r, "hello")
		n.Inject(from, srvAddr, hello(atkKeys[r.Intn("hello", 3)]), 0, "hello-flood")
		r.CountFault("client-hello-flood", 1)
		if r.Intn("hello", 10) == 0 {
			time.Sleep(time.Duration(r.Intn("hello", 5)) * time.Millisecond)
		}
	}
	time.Sleep(50 * time.Millisecond)

	// phase 2: acknowledgements whose cookie does not belong to them
	nAck := 5 + r.Intn("cfg", 25)
	for i := 0; i < nAck; i++ {
		if !r.Op("ack") {
			continue
		}
		kp := atkKeys[r.Intn("ack", 3)]
		from := drawAddr(r, "ack")
		lastSH = nil
		n.Inject(from, srvAddr, hello(kp), 0, "hello")
		time.Sleep(10 * time.Millisecond)
		if lastSH == nil {
			continue
		}
		k, cookie, err := transport.VerifAdvOpenServerHello(kp, lastSH)
		if err != nil {
			continue
		}
		ackKey, ackFrom := kp, from
		variant := r.Intn("ack", 10)
		name := certs.DNSName("server.sim")
		what := "control: same key, same address"
		switch variant {
		case 0: // control: must be acceptable
		case 1:
			ackFrom = otherHost(r, "ack", from)
			what = "other IP"
		case 2:
			ackFrom = &net.UDPAddr{IP: from.IP, Port: from.Port + 1 + r.Intn("ack", 100)}
			what = "other port"
		case 3:
			ackKey = atkKeys[(r.Intn("ack", 2)+1+indexOfKey(atkKeys, kp))%3]
			what = "other client KEM key"
		case 4:
			what = "after cookie key rotation"
			time.Sleep(2*time.Minute + time.Duration(1+r.Intn("ack", 100))*time.Second)
		case 9:
			// the same, on a server that is never quiet: other clients' hellos keep arriving, closer together than
			// the handshake timeout, all the time until the old cookie is presented
			what = "after cookie key rotation on a busy server"
			until := r.Now() + 2*time.Minute + time.Duration(1+r.Intn("ack", 200))*time.Second
			for r.Now() < until {
				n.Inject(drawAddr(r, "busy"), srvAddr, hello(atkKeys[r.Intn("busy", 3)]), 0, "hello-meanwhile")
				time.Sleep(time.Duration(200+r.Intn("busy", 2500)) * time.Millisecond)
			}
		case 5, 6:
			what = "after server restart"
			srv.Close()
			ep.Close()
			time.Sleep(time.Duration(1+r.Intn("ack", 50)) * time.Millisecond)
			start()
		case 7:
			what = "cookie bytes altered"
			cookie[r.Intn("ack", len(cookie))] ^= byte(1 + r.Intn("ack", 255))
		case 8:
			// a key that differs from the one the cookie was minted for in a few bytes only (front, middle, or
			// the trailing seed of the encoding); the sender knows the shared secret and recomputes everything
			what = "client KEM key differing in a few bytes"
			pb, err := kp.Public.MarshalBinary()
			if err != nil || len(pb) != kemKeyLen {
				continue
			}
			off := []int{r.Intn("ack", 32), 32 + r.Intn("ack", kemKeyLen-64), kemKeyLen - 1 - r.Intn("ack", 32)}[r.Intn("ack", 3)]
			pb[off] ^= byte(1 << uint(r.Intn("ack", 8)))
			np, err := keys.ParseKEMPublicKeyFromBytes(pb)
			if err != nil {
				continue
			}
			ackKey = &keys.KEMKeyPair{Public: *np, Private: kp.Private, Seed: kp.Seed}
		}
		ca, err := transport.VerifAdvClientAck(ackKey, k, cookie, name)
		if err != nil {
			continue
		}
		before := len(o.saFor)
		n.Inject(ackFrom, srvAddr, ca, 0, "ack:"+what)
		r.CountFault("clientack/"+what, 1)
		time.Sleep(20 * time.Millisecond)
		if variant == 0 {
			if len(o.saFor) == before {
				r.Probe("control-ack-not-answered")
			} else {
				r.Probe("control-ack-answered")
			}
		}
		r.Logf("ack variant %d (%s) answered=%v", variant, what, len(o.saFor) != before)
		// while the handshake of that address is pending: further acknowledgements from the SAME address
		// whose cookie is not theirs (each is judged by the ServerAuth oracle above like any other)
		if variant == 0 && len(o.saFor) != before && r.Intn("ack", 2) == 0 {
			for f := 0; f < 1+r.Intn("ack", 3); f++ {
				var bogus []byte
				fwhat := ""
				switch r.Intn("ack", 4) {
				case 0:
					c2 := append([]byte(nil), cookie...)
					c2[r.Intn("ack", len(c2))] ^= byte(1 + r.Intn("ack", 255))
					bogus, err = transport.VerifAdvClientAck(kp, k, c2, name)
					fwhat = "cookie bytes altered"
				case 1:
					bogus, err = transport.VerifAdvClientAck(kp, k, make([]byte, len(cookie)), name)
					fwhat = "all-zero cookie"
				case 2:
					other := atkKeys[(1+indexOfKey(atkKeys, kp))%3]
					bogus, err = transport.VerifAdvClientAck(other, k, cookie, name)
					fwhat = "other client KEM key"
				default:
					bogus = r.Bytes("ack", len(ca))
					bogus[0], bogus[1], bogus[2], bogus[3] = 0x03, 0, 0, 0
					fwhat = "random bytes of the right length"
				}
				if err != nil || bogus == nil {
					continue
				}
				n.Inject(from, srvAddr, bogus, 0, "ack-while-pending:"+fwhat)
				r.CountFault("clientack-while-pending/"+fwhat, 1)
				time.Sleep(time.Duration(1+r.Intn("ack", 30)) * time.Millisecond)
			}
		}
	}
	// phase 3: acknowledgements whose cookie the attacker sealed itself under a cookie key anybody can guess
	// (no hello needed); at any moment of the server's life, also right after start and right after a rotation
	for i := 0; i < r.Intn("cfg", 6); i++ {
		if !r.Op("forge") {
			continue
		}
		switch r.Intn("forge", 4) {
		case 0:
			time.Sleep(2*time.Minute + time.Duration(r.Intn("forge", 5))*time.Second)
		case 1:
			srv.Close()
			ep.Close()
			time.Sleep(time.Duration(1+r.Intn("forge", 50)) * time.Millisecond)
			start()
		}
		kp := atkKeys[r.Intn("forge", 3)]
		from := drawAddr(r, "forge")
		var ck [16]byte
		switch r.Intn("forge", 3) {
		case 1:
			for j := range ck {
				ck[j] = 0xff
			}
		case 2:
			ck[15] = 1
		}
		k := r.Bytes("forge", 32)
		cookie, err := transport.VerifAdvForgeCookie(ck, kp, from, k)
		if err != nil {
			continue
		}
		ca, err := transport.VerifAdvClientAck(kp, k, cookie, certs.DNSName("server.sim"))
		if err != nil {
			continue
		}
		n.Inject(from, srvAddr, ca, 0, "ack:cookie sealed by the attacker under a guessable key")
		r.CountFault("clientack/cookie-forged-under-guessable-key", 1)
		time.Sleep(20 * time.Millisecond)
	}
	r.Sample = append(r.Sample, fmt.Sprintf("hellos=%d acks=%d answered=%d", nHello, nAck, len(o.saFor)))
	srv.Close()
}

// drawAddr returns an attacker source address: IPv4 or IPv6.
func drawAddr(r *Run, key string) *net.UDPAddr {
	port := 1000 + r.Intn(key, 60000)
	if r.Intn(key, 3) == 0 {
		ip := net.ParseIP(fmt.Sprintf("2001:db8::%x", 1+r.Intn(key, 0xfffe)))
		return &net.UDPAddr{IP: ip, Port: port}
	}
	return Addr(byte(50+r.Intn(key, 150)), port)
}

// otherHost returns another host address of the same family, same port.
func otherHost(r *Run, key string, a *net.UDPAddr) *net.UDPAddr {
	if a.IP.To4() == nil {
		ip := net.ParseIP(fmt.Sprintf("2001:db8:1::%x", 1+r.Intn(key, 0xfffe)))
		return &net.UDPAddr{IP: ip, Port: a.Port}
	}
	return &net.UDPAddr{IP: Addr(byte(201+r.Intn(key, 50)), 1).IP, Port: a.Port}
}

func indexOfKey(l []*keys.KEMKeyPair, k *keys.KEMKeyPair) int {
	for i, x := range l {
		if x == k {
			return i
		}
	}
	return 0
}

func scHiddenSilence(r *Run) {
	transport.VerifClientClock = nil
	defer func() { transport.VerifClientClock = nil }()
	n := NewNet(r)
	defer n.Stop()
	n.Cfg.Latency = time.Millisecond
	n.Step = true
	multi := r.Intn("cfg", 3) == 0
	if multi && r.Intn("cfg", 5) == 0 {
		// hidden mode configured with names that match no host block: whatever arrives, nothing is sent
		vs := startVHostServer(r, n, 2, true, false, true)
		defer vs.srv.Close()
		n.OnSend = func(d *Dgram) {
			if d.Src.String() == vs.addr.String() {
				r.Violate("C19/hidden-server-answered", "a server configured for hidden mode (hidden names that match no host block) sent a datagram (%d bytes, type %#x) to %s in response to %s", len(d.Data), firstByte(d.Data), d.Dst, describeCause(d))
			}
		}
		kp, err := keys.GenerateKEMKeyPair(cryptorand.Reader)
		must(err)
		for i := 0; i < 3+r.Intn("cfg", 10); i++ {
			from := drawAddr(r, "mis")
			switch r.Intn("mis", 4) {
			case 0:
				b, err := transport.VerifAdvClientHello(kp)
				must(err)
				n.Inject(from, vs.addr, b, 0, "valid discoverable ClientHello")
			case 1:
				k := newX25519()
				cfg := transport.ClientConfig{Exchanger: k, Leaf: SelfSigned(k.Public), HSTimeout: time.Second, Verify: transport.VerifyConfig{InsecureSkipVerify: true, Name: certs.DNSName("alpha.sim")}}
				c := transport.NewClient(n.Listen("c-"+from.String(), from, vs.addr), vs.addr, cfg)
				WithTimeout(r, 10*time.Second, func() { c.Handshake() })
				c.Close()
			case 2:
				k := newX25519()
				cfg := transport.ClientConfig{Exchanger: k, Leaf: SelfSigned(k.Public), HSTimeout: time.Second, ServerKEMKey: &vs.hosts[0].kem.Public,
					Verify: transport.VerifyConfig{InsecureSkipVerify: true, Name: certs.DNSName("alpha.sim")}}
				c := transport.NewClient(n.Listen("c-"+from.String(), from, vs.addr), vs.addr, cfg)
				WithTimeout(r, 10*time.Second, func() { c.Handshake() })
				c.Close()
			default:
				n.Inject(from, vs.addr, r.Bytes("mis", 1+r.Intn("mis", 1500)), 0, "junk")
			}
			r.Obligation(1)
			time.Sleep(time.Duration(r.Intn("mis", 50)) * time.Millisecond)
		}
		r.CountFault("hidden-mode-with-names-that-match-no-host", 1)
		time.Sleep(2 * time.Second)
		return
	}
	var srvAddr *net.UDPAddr
	var rightKEM *keys.KEMPublicKey
	var otherBlockKEM *keys.KEMPublicKey // KEM key of a host block that is not enabled for hidden mode
	var mkClient func(addr *net.UDPAddr, kemPub *keys.KEMPublicKey, discoverable bool) *transport.Client
	var closeSrv func()
	if multi {
		withCatchAll := r.Intn("cfg", 2) == 0
		vs := startVHostServer(r, n, 2, true, withCatchAll, false, true)
		if vs.notHidden != nil {
			otherBlockKEM = &vs.notHidden.kem.Public
		}
		srvAddr = vs.addr
		rightKEM = &vs.hosts[r.Intn("cfg", 2)].kem.Public
		closeSrv = func() { vs.srv.Close() }
		mkClient = func(addr *net.UDPAddr, kemPub *keys.KEMPublicKey, discoverable bool) *transport.Client {
			k := newX25519()
			cfg := transport.ClientConfig{Exchanger: k, Leaf: SelfSigned(k.Public), HSTimeout: time.Second, Verify: transport.VerifyConfig{InsecureSkipVerify: true, Name: certs.DNSName("x")}}
			if !discoverable {
				cfg.ServerKEMKey = kemPub
			}
			return transport.NewClient(n.Listen("c-"+addr.String(), addr, srvAddr), srvAddr, cfg)
		}
	} else {
		ts := StartServer(r, n, ServerOpts{Hidden: true, HSTimeout: 3 * time.Second})
		srvAddr = ts.Addr
		rightKEM = &ts.KEM.Public
		closeSrv = func() { ts.Srv.Close() }
		mkClient = func(addr *net.UDPAddr, kemPub *keys.KEMPublicKey, discoverable bool) *transport.Client {
			k := newX25519()
			cfg := transport.ClientConfig{Exchanger: k, Leaf: SelfSigned(k.Public), HSTimeout: time.Second, Verify: transport.VerifyConfig{InsecureSkipVerify: true, Name: certs.DNSName("x")}}
			if !discoverable {
				cfg.ServerKEMKey = kemPub
			}
			return transport.NewClient(n.Listen("c-"+addr.String(), addr, srvAddr), srvAddr, cfg)
		}
	}
	defer closeSrv()
	r.SetCfg("multi-cert", multi)
	wrongKEM, err := keys.GenerateKEMKeyPair(cryptorand.Reader)
	must(err)

	// classification of arrivals at the server
	genuineFresh := func(d *Dgram) (bool, string) {
		if len(d.Data) == 0 || d.Data[0] != 0x08 {
			return false, "not a hidden request"
		}
		if d.Tag != "genuine" {
			return false, "not built with the server's KEM key: " + d.Tag
		}
		if d.Mut != "" {
			return false, "modified in flight: " + d.Mut
		}
		age := r.Now() - d.SentAt
		if age > 7*time.Second {
			return false, fmt.Sprintf("stale: delivered %v after it was built", age)
		}
		return true, ""
	}
	unjudged := func(d *Dgram) bool {
		// replays inside (or at the edge of) the freshness window are not judged
		if d.Tag == "genuine" && d.Mut == "" {
			age := r.Now() - d.SentAt
			return d.Copy > 0 && age <= 7*time.Second || (age > 4*time.Second && age <= 7*time.Second)
		}
		return false
	}
	n.OnSend = func(d *Dgram) {
		if d.Src.String() != srvAddr.String() {
			return
		}
		r.Obligation(1)
		if d.Cause == nil {
			r.Violate("C19/hidden-server-unsolicited-datagram", "hidden server emitted datagram #%d (%s) that no delivery caused", d.ID, typeName(d.Data))
			return
		}
		if unjudged(d.Cause) {
			r.Probe("reply-to-replay-inside-window-not-judged")
			return
		}
		if ok, why := genuineFresh(d.Cause); !ok {
			r.Violate("C19/hidden-server-answered", "hidden server sent %s (#%d, %d bytes) in response to arrival #%d.%d (%s, %d bytes) which is %s", typeName(d.Data), d.ID, len(d.Data), d.Cause.ID, d.Cause.Copy, typeName(d.Cause.Data), len(d.Cause.Data), why)
		} else {
			r.Probe("genuine-request-answered")
		}
	}
	// every datagram clients emit is intercepted: the scenario decides how it reaches the server
	var genuine []*Dgram
	pendingTag := map[string]string{}
	n.Tap = func(d *Dgram) bool {
		if d.Dst.String() != srvAddr.String() {
			return true
		}
		if t, ok := pendingTag[d.Src.String()]; ok {
			d.Tag = t
		}
		if d.Tag == "genuine" && len(d.Data) > 0 && d.Data[0] == 0x08 {
			genuine = append(genuine, d.clone())
		}
		return true
	}
	var clients []*transport.Client
	nActs := 10 + r.Intn("cfg", 60)
	for i := 0; i < nActs; i++ {
		if !r.Op("act") {
			continue
		}
		addr := Addr(byte(20+r.Intn("act", 200)), 2000+i)
		if transport.VerifClientClockPatched && r.Intn("clock", 8) == 0 {
			// a holder of the right KEM key whose clock is wrong, or who lies about the time: the request is
			// well-formed but not fresh
			now := time.Now().Unix()
			skew := []int64{now - 10 - int64(r.Intn("clock", 100000)), now + 10 + int64(r.Intn("clock", 100000)), 0, 1, 1 << 62, -1, -1 << 63, -1<<63 + now, -now}[r.Intn("clock", 9)]
			pendingTag[addr.String()] = fmt.Sprintf("right KEM key, but the timestamp in the request is %d (the time is %d)", uint64(skew), now)
			c := mkClient(addr, rightKEM, false)
			clients = append(clients, c)
			transport.VerifClientClock = func() int64 { return skew }
			r.Go(func() { c.Handshake() })
			time.Sleep(time.Millisecond) // (the request is written at once)
			transport.VerifClientClock = nil
			r.CountFault("hidden/request-with-wrong-clock", 1)
			time.Sleep(time.Duration(r.Intn("act", 300)) * time.Millisecond)
			continue
		}
		switch r.Intn("act", 9) {
		case 0: // genuine fresh request (control)
			pendingTag[addr.String()] = "genuine"
			c := mkClient(addr, rightKEM, false)
			clients = append(clients, c)
			r.Go(func() { c.Handshake() })
		case 1: // valid discoverable-mode handshake attempt
			pendingTag[addr.String()] = "discoverable client"
			c := mkClient(addr, nil, true)
			clients = append(clients, c)
			r.Go(func() { c.Handshake() })
			r.CountFault("hidden/discoverable-message", 1)
		case 2: // request under a wrong KEM key
			pendingTag[addr.String()] = "wrong KEM key"
			wk := &wrongKEM.Public
			if otherBlockKEM != nil && r.Intn("act", 2) == 0 {
				// ... which is the key of one of the server's own host blocks, one that is not hidden-enabled
				wk = otherBlockKEM
				pendingTag[addr.String()] = "KEM key of a host block that is not enabled for hidden mode"
			}
			c := mkClient(addr, wk, false)
			clients = append(clients, c)
			r.Go(func() { c.Handshake() })
			r.CountFault("hidden/wrong-kem-key", 1)
		case 3, 4: // flipped / truncated / extended genuine request
			if len(genuine) == 0 {
				continue
			}
			g := genuine[r.Intn("act", len(genuine))].clone()
			g.SentAt = r.Now() // judged as modified, not as stale
			switch r.Intn("act", 3) {
			case 0:
				off := r.Intn("act", len(g.Data))
				g.Data[off] ^= byte(1) << (r.U64("act") % 8)
				g.Mut = fmt.Sprintf("flip@%d", off)
			case 1:
				g.Data = g.Data[:r.Intn("act", len(g.Data))]
				g.Mut = fmt.Sprintf("trunc@%d", len(g.Data))
			default:
				g.Data = append(g.Data, r.Bytes("act", 1+r.Intn("act", 40))...)
				g.Mut = "extended"
			}
			g.From = addr
			n.Redeliver(g, 0)
			r.CountFault("hidden/modified-genuine-request", 1)
		case 5: // genuine request replayed late (beyond the freshness window)
			if len(genuine) == 0 {
				continue
			}
			g := genuine[r.Intn("act", len(genuine))].clone()
			g.Copy = 500
			g.From = addr
			wait := 8*time.Second - (r.Now() - g.SentAt)
			if wait < 0 {
				wait = 0
			}
			n.Redeliver(g, wait+time.Duration(r.Intn("act", 60))*time.Second)
			r.CountFault("hidden/late-replay", 1)
		case 6: // junk
			n.Inject(addr, srvAddr, r.Bytes("act", r.Intn("act", 2000)), 0, "junk")
			r.CountFault("hidden/junk", 1)
		case 7: // transport packet for an unknown session
			pkt := r.Bytes("act", 48+r.Intn("act", 100))
			pkt[0], pkt[1], pkt[2], pkt[3] = 0x10, 0, 0, 0
			n.Inject(addr, srvAddr, pkt, 0, "unknown-session")
			r.CountFault("hidden/unknown-session-packet", 1)
		default: // junk that looks like a hidden request
			l := 1700 + r.Intn("act", 200)
			pkt := r.Bytes("act", l)
			pkt[0], pkt[1] = 0x08, 0x01
			if r.Intn("act", 2) == 0 {
				pkt[2], pkt[3] = 0, 0x90
			}
			n.Inject(addr, srvAddr, pkt, 0, "fake-hidden-request")
			r.CountFault("hidden/fake-request", 1)
		}
		time.Sleep(time.Duration(r.Intn("act", 300)) * time.Millisecond)
	}
	time.Sleep(75 * time.Second)
	for _, c := range clients {
		c.Close()
	}
	r.Sample = append(r.Sample, fmt.Sprintf("acts=%d genuine=%d multi=%v", nActs, len(genuine), multi))
}

func firstByte(b []byte) byte {
	if len(b) == 0 {
		return 0
	}
	return b[0]
}

func describeCause(d *Dgram) string {
	if d.Cause == nil {
		return "nothing in particular"
	}
	return fmt.Sprintf("#%d from %s (%s, %d bytes)", d.Cause.ID, d.Cause.From, d.Cause.Tag+d.Cause.Mut, len(d.Cause.Data))
}
