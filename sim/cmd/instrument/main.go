// Command instrument produces yield-instrumented copies of hop-go source files
// (DESIGN.md section 2.4).  It never touches /repo: copies are written to an
// output directory and injected with `go build -overlay`.
//
// The pass is purely textual on top of go/parser positions: the call
// `verifc.VerifY(N); ` is inserted at the first byte of selected statements, so
// line numbers of the original file are preserved (stack traces and panic
// classes stay meaningful).
//
// usage: instrument -repo /repo -out DIR pkgdir...
// stdout: JSON {"replace": {orig: copy, ...}, "sites": [{"id":..,"file":..,"line":..,"func":..,"kind":..}]}
package main

import (
	"encoding/json"
	"flag"
	"fmt"
	"go/ast"
	"go/parser"
	"go/token"
	"os"
	"path/filepath"
	"sort"
	"strings"
)

type site struct {
	ID   int    `json:"id"`
	File string `json:"file"`
	Line int    `json:"line"`
	Func string `json:"func"`
	Kind string `json:"kind"`
}

var syncMethods = map[string]string{
	"Lock": "lock", "Unlock": "unlock", "RLock": "lock", "RUnlock": "unlock",
	"Wait": "wait", "Done": "done", "Load": "atomic", "Store": "atomic",
	"CompareAndSwap": "atomic", "Swap": "atomic", "Add": "atomic",
	"Send": "chan", "Recv": "chan", "Stop": "timer", "Reset": "timer",
}

type insertion struct {
	off  int
	text string
}

type fileCtx struct {
	fset    *token.FileSet
	file    *token.File
	rel     string
	pkgName string
	call    string
	ins     []insertion
	sites   *[]site
	fn      string
}

// syncKind reports whether the expression tree (excluding function literal
// bodies) contains a synchronisation operation.
func syncKind(n ast.Node) string {
	kind := ""
	if n == nil {
		return ""
	}
	ast.Inspect(n, func(x ast.Node) bool {
		if kind != "" {
			return false
		}
		switch v := x.(type) {
		case *ast.FuncLit:
			return false
		case *ast.UnaryExpr:
			if v.Op == token.ARROW {
				kind = "chan"
			}
		case *ast.CallExpr:
			switch f := v.Fun.(type) {
			case *ast.Ident:
				if f.Name == "close" {
					kind = "close"
				}
			case *ast.SelectorExpr:
				if k, ok := syncMethods[f.Sel.Name]; ok {
					kind = k
				}
			}
		}
		return true
	})
	return kind
}

func (c *fileCtx) add(pos token.Pos, kind string, afterBrace bool) {
	id := len(*c.sites) + 1
	p := c.fset.Position(pos)
	*c.sites = append(*c.sites, site{ID: id, File: c.rel, Line: p.Line, Func: c.fn, Kind: kind})
	off := c.file.Offset(pos)
	if afterBrace {
		off++
	}
	c.ins = append(c.ins, insertion{off: off, text: fmt.Sprintf(" %s(%d); ", c.call, id)})
}

// loopTick inserts the iteration counter at the top of a loop body: a run that spins (a loop that never
// ends and never blocks) is stopped by the kernel after a fixed number of iterations, deterministically.
func (c *fileCtx) loopTick(body *ast.BlockStmt) {
	if body == nil {
		return
	}
	tick := strings.Replace(c.call, "VerifY", "VerifL", 1)
	c.ins = append(c.ins, insertion{off: c.file.Offset(body.Lbrace) + 1, text: fmt.Sprintf(" %s(); ", tick)})
}

func (c *fileCtx) stmtList(list []ast.Stmt) {
	for _, s := range list {
		c.stmt(s, true)
	}
}

// stmt visits one statement; mayInsert says whether text may be inserted
// directly before it.
func (c *fileCtx) stmt(s ast.Stmt, mayInsert bool) {
	switch v := s.(type) {
	case *ast.BlockStmt:
		c.stmtList(v.List)
	case *ast.LabeledStmt:
		c.stmt(v.Stmt, false)
	case *ast.ExprStmt, *ast.AssignStmt, *ast.IncDecStmt, *ast.ReturnStmt, *ast.DeclStmt:
		if k := syncKind(s); k != "" && mayInsert {
			c.add(s.Pos(), k, false)
		}
		c.funcLits(s)
	case *ast.SendStmt:
		if mayInsert {
			c.add(s.Pos(), "chan", false)
		}
		c.funcLits(s)
	case *ast.GoStmt:
		if mayInsert {
			c.add(s.Pos(), "go", false)
		}
		c.funcLits(s)
	case *ast.DeferStmt:
		c.funcLits(s)
	case *ast.IfStmt:
		k := syncKind(v.Init)
		if k == "" {
			k = syncKind(v.Cond)
		}
		if k != "" && mayInsert {
			c.add(s.Pos(), k, false)
		}
		if v.Init != nil {
			c.funcLits(v.Init)
		}
		c.funcLits(v.Cond)
		c.stmt(v.Body, true)
		if v.Else != nil {
			// `else if` / `else {`: nothing may be inserted before the else branch itself
			c.stmt(v.Else, false)
		}
	case *ast.ForStmt:
		c.loopTick(v.Body)
		k := syncKind(v.Init)
		if k != "" && mayInsert {
			c.add(s.Pos(), k, false)
		}
		kc := syncKind(v.Cond)
		if kc == "" {
			kc = syncKind(v.Post)
		}
		if kc != "" {
			c.add(v.Body.Lbrace, kc, true)
		}
		c.stmt(v.Body, true)
	case *ast.RangeStmt:
		c.loopTick(v.Body)
		if k := syncKind(v.X); k != "" {
			c.add(v.Body.Lbrace, k, true)
		} else if id, ok := v.X.(*ast.SelectorExpr); ok && id.Sel.Name == "C" {
			// range over a channel field named C (DeadlineChan.C)
			c.add(v.Body.Lbrace, "chan", true)
		}
		c.stmt(v.Body, true)
	case *ast.SelectStmt:
		if mayInsert {
			c.add(s.Pos(), "select", false)
		}
		for _, cl := range v.Body.List {
			c.stmtList(cl.(*ast.CommClause).Body)
		}
	case *ast.SwitchStmt:
		k := syncKind(v.Init)
		if k == "" {
			k = syncKind(v.Tag)
		}
		if k != "" && mayInsert {
			c.add(s.Pos(), k, false)
		}
		for _, cl := range v.Body.List {
			c.stmtList(cl.(*ast.CaseClause).Body)
		}
	case *ast.TypeSwitchStmt:
		for _, cl := range v.Body.List {
			c.stmtList(cl.(*ast.CaseClause).Body)
		}
	}
}

// funcLits instruments the bodies of function literals inside a statement or expression.
func (c *fileCtx) funcLits(n ast.Node) {
	if n == nil {
		return
	}
	ast.Inspect(n, func(x ast.Node) bool {
		if fl, ok := x.(*ast.FuncLit); ok {
			old := c.fn
			c.fn = old + ".func"
			c.stmtList(fl.Body.List)
			c.fn = old
			return false
		}
		return true
	})
}

func recvName(fd *ast.FuncDecl) string {
	if fd.Recv == nil || len(fd.Recv.List) == 0 {
		return fd.Name.Name
	}
	t := fd.Recv.List[0].Type
	star := ""
	if s, ok := t.(*ast.StarExpr); ok {
		t = s.X
		star = "*"
	}
	name := "?"
	switch v := t.(type) {
	case *ast.Ident:
		name = v.Name
	case *ast.IndexExpr:
		if id, ok := v.X.(*ast.Ident); ok {
			name = id.Name
		}
	}
	return "(" + star + name + ")." + fd.Name.Name
}

func main() {
	repo := flag.String("repo", "/repo", "repository root")
	out := flag.String("out", "", "output directory")
	flag.Parse()
	if *out == "" {
		fmt.Fprintln(os.Stderr, "instrument: -out required")
		os.Exit(2)
	}
	replace := map[string]string{}
	sites := []site{}
	for _, pkg := range flag.Args() {
		dir := filepath.Join(*repo, pkg)
		ents, err := os.ReadDir(dir)
		if err != nil {
			fmt.Fprintln(os.Stderr, "instrument:", err)
			os.Exit(2)
		}
		names := []string{}
		for _, e := range ents {
			n := e.Name()
			if e.IsDir() || !strings.HasSuffix(n, ".go") || strings.HasSuffix(n, "_test.go") {
				continue
			}
			names = append(names, n)
		}
		sort.Strings(names)
		for _, n := range names {
			path := filepath.Join(dir, n)
			src, err := os.ReadFile(path)
			if err != nil {
				fmt.Fprintln(os.Stderr, "instrument:", err)
				os.Exit(2)
			}
			// Leave files with compiler directives other than build constraints alone.
			skip := false
			for _, line := range strings.Split(string(src), "\n") {
				t := strings.TrimSpace(line)
				if strings.HasPrefix(t, "//go:") && !strings.HasPrefix(t, "//go:build") {
					skip = true
				}
			}
			if skip {
				continue
			}
			fset := token.NewFileSet()
			f, err := parser.ParseFile(fset, path, src, parser.ParseComments)
			if err != nil {
				// A file that does not parse is left to the compiler to report.
				continue
			}
			rel := filepath.Join(pkg, n)
			c := &fileCtx{fset: fset, file: fset.File(f.Pos()), rel: rel, pkgName: f.Name.Name, sites: &sites}
			if pkg == "common" {
				c.call = "VerifY"
			} else {
				c.call = "verifc.VerifY"
			}
			for _, d := range f.Decls {
				fd, ok := d.(*ast.FuncDecl)
				if !ok || fd.Body == nil {
					continue
				}
				c.fn = pkg + "." + recvName(fd)
				c.stmtList(fd.Body.List)
			}
			if len(c.ins) == 0 {
				continue
			}
			if pkg != "common" {
				// import on the package clause line keeps line numbers intact
				off := c.file.Offset(f.Name.End())
				c.ins = append(c.ins, insertion{off: off, text: `; import verifc "hop.computer/hop/common"`})
			}
			sort.SliceStable(c.ins, func(i, j int) bool { return c.ins[i].off < c.ins[j].off })
			var b strings.Builder
			last := 0
			for _, in := range c.ins {
				b.Write(src[last:in.off])
				b.WriteString(in.text)
				last = in.off
			}
			b.Write(src[last:])
			dst := filepath.Join(*out, strings.ReplaceAll(rel, "/", "__"))
			text := b.String()
			if prev, err := os.ReadFile(dst); err != nil || string(prev) != text {
				if err := os.MkdirAll(*out, 0o755); err != nil {
					fmt.Fprintln(os.Stderr, "instrument:", err)
					os.Exit(2)
				}
				if err := os.WriteFile(dst, []byte(text), 0o644); err != nil {
					fmt.Fprintln(os.Stderr, "instrument:", err)
					os.Exit(2)
				}
			}
			replace[path] = dst
		}
	}
	enc := json.NewEncoder(os.Stdout)
	enc.SetIndent("", " ")
	enc.Encode(map[string]any{"replace": replace, "sites": sites})
}
