// Package sim is the deterministic whole-system simulator for hop-go
// (see /verif/DESIGN.md).  One Run = one synctest bubble = one exactly
// repeatable execution determined by (base seed, run index, scenario, suppress set).
package sim

import (
	cryptorand "crypto/rand"
	"fmt"
	"io"
	mathrand "math/rand/v2"
	"os"
	"runtime"
	"runtime/debug"
	"sort"
	"strings"
	"sync"
	"testing/synctest"
	"time"
	_ "unsafe"

	"github.com/sirupsen/logrus"

	"hop.computer/hop/common"
)

//go:linkname runtimeVerifRandSeed runtime.verifRandSeed
func runtimeVerifRandSeed(s uint64)

// Goid is the identity of the calling goroutine (runtime overlay accessor): scenarios use it to tie what a
// callback sees to the harness call that is being executed on the same goroutine.
//
//go:linkname Goid runtime.verifGoid
func Goid() uint64

//go:linkname randSetTestingReader crypto/internal/rand.SetTestingReader
func randSetTestingReader(r io.Reader)

// ---------------------------------------------------------------------------
// keyed counter-based PRNG streams

func splitmix(z uint64) uint64 {
	z += 0x9E3779B97F4A7C15
	z = (z ^ (z >> 30)) * 0xBF58476D1CE4E5B9
	z = (z ^ (z >> 27)) * 0x94D049BB133111EB
	return z ^ (z >> 31)
}

func hashStr(s string) uint64 {
	h := uint64(0xcbf29ce484222325)
	for i := 0; i < len(s); i++ {
		h ^= uint64(s[i])
		h *= 0x100000001b3
	}
	return h
}

// Violation is one oracle failure.
type Violation struct {
	Class string `json:"class"`
	Msg   string `json:"msg"`
	At    int64  `json:"at_ns"`
}

// Run is the context of one simulated execution.
type Run struct {
	Base     uint64
	Index    uint64
	Scenario string
	Tier     string
	seed     uint64

	suppress map[string]struct{}
	ords     map[string]uint64

	// Fired lists the non-benign decisions that fired, in order: "kind:key#ord=val".
	Fired []string

	hash     uint64
	nEvents  int64
	tail     []string
	tailPos  int
	trace    bool
	full     []string
	start    time.Time
	cut      func(reason string)
	cutTimer *time.Timer
	endSim   int64 // simulated ns at which the bubble ended; -1 while it runs
	lastT    int64 // simulated ns of the last logged event
	Viol     []Violation
	faults   map[string]int64
	probes   map[string]int64
	Cfg      []string
	Oblig    int64 // non-vacuous oracle obligations evaluated
	inflight int64 // faults that fired while an operation was in flight
	Sample   []string

	yield yieldState

	// Hist is the lock-free operation history (C17).
	Hist History
	// Aux carries scenario data from the bubble to the After hook.
	Aux any
	// NoLeakCheck: the scenario already reported the calls that never return;
	// the goroutines they leave behind are the same fact, not a second finding.
	NoLeakCheck bool

	harnessG int // goroutines started by the harness that are still alive
	mu       sync.Mutex
}

const tailLen = 120

func newRun(base, index uint64, scenario, tier string, suppress []string, trace bool) *Run {
	r := &Run{Base: base, Index: index, Scenario: scenario, Tier: tier, trace: trace}
	r.seed = splitmix(base ^ splitmix(index+0x51) ^ hashStr(scenario))
	r.suppress = make(map[string]struct{}, len(suppress))
	for _, s := range suppress {
		r.suppress[s] = struct{}{}
	}
	r.ords = make(map[string]uint64)
	r.faults = make(map[string]int64)
	r.probes = make(map[string]int64)
	r.tail = make([]string, tailLen)
	r.hash = 0xcbf29ce484222325
	r.endSim = -1
	return r
}

// Seed returns the run seed.
func (r *Run) Seed() uint64 { return r.seed }

func (r *Run) next(key string) (uint64, uint64) {
	r.mu.Lock()
	defer r.mu.Unlock()
	o := r.ords[key]
	r.ords[key] = o + 1
	return splitmix(r.seed ^ hashStr(key) ^ splitmix(o*0x9E3779B97F4A7C15+1)), o
}

// U64 draws from the keyed stream; not recorded, not suppressible
// (configuration and payload generation).
func (r *Run) U64(key string) uint64 { v, _ := r.next(key); return v }

// Intn draws a uniform int in [0,n).
func (r *Run) Intn(key string, n int) int {
	if n <= 1 {
		return 0
	}
	return int(r.U64(key) % uint64(n))
}

// Float draws a uniform float in [0,1).
func (r *Run) Float(key string) float64 { return float64(r.U64(key)>>11) / (1 << 53) }

// Bytes fills a fresh slice with stream bytes.
func (r *Run) Bytes(key string, n int) []byte {
	b := make([]byte, n)
	for i := 0; i < n; i += 8 {
		v := r.U64(key)
		for j := 0; j < 8 && i+j < n; j++ {
			b[i+j] = byte(v >> (8 * j))
		}
	}
	return b
}

// Fault decides whether a fault of the given kind fires at decision point key
// with probability p.  A fired fault is recorded and can be suppressed by a
// replay file (forced benign) without disturbing any other decision.
func (r *Run) Fault(kind, key string, p float64) bool {
	if p <= 0 {
		return false
	}
	k := kind + ":" + key
	v, o := r.next(k)
	if float64(v>>11)/(1<<53) >= p {
		return false
	}
	id := fmt.Sprintf("%s#%d", k, o)
	if _, s := r.suppress[id]; s {
		return false
	}
	r.mu.Lock()
	r.Fired = append(r.Fired, id)
	r.faults[kind]++
	r.mu.Unlock()
	return true
}

// Pick returns a non-benign alternative in 1..n with probability p, else 0.
func (r *Run) Pick(kind, key string, p float64, n int) int {
	if p <= 0 || n <= 0 {
		return 0
	}
	k := kind + ":" + key
	v, o := r.next(k)
	if float64(v>>11)/(1<<53) >= p {
		return 0
	}
	id := fmt.Sprintf("%s#%d", k, o)
	if _, s := r.suppress[id]; s {
		return 0
	}
	val := 1 + int(splitmix(v)%uint64(n))
	r.mu.Lock()
	r.Fired = append(r.Fired, fmt.Sprintf("%s=%d", id, val))
	r.faults[kind]++
	r.mu.Unlock()
	return val
}

// Op reports whether workload operation key is enabled (true unless a replay
// file removed it).  Recorded so that minimisation can drop operations.
func (r *Run) Op(key string) bool {
	k := "op:" + key
	r.mu.Lock()
	defer r.mu.Unlock()
	o := r.ords[k]
	r.ords[k] = o + 1
	id := fmt.Sprintf("%s#%d", k, o)
	if _, s := r.suppress[id]; s {
		return false
	}
	r.Fired = append(r.Fired, id)
	return true
}

// CountFault records a fault that was injected by scenario code itself.
func (r *Run) CountFault(kind string, n int64) { r.mu.Lock(); r.faults[kind] += n; r.mu.Unlock() }

// Probe counts a "rare condition reached" event.
func (r *Run) Probe(name string) { r.mu.Lock(); r.probes[name]++; r.mu.Unlock() }

// ProbeN adds n to a probe.
func (r *Run) ProbeN(name string, n int64) { r.mu.Lock(); r.probes[name] += n; r.mu.Unlock() }

// Obligation records that the oracle evaluated n non-vacuous obligations.
func (r *Run) Obligation(n int64) { r.mu.Lock(); r.Oblig += n; r.mu.Unlock() }

// InFlightFault records that a fault landed inside an operation in flight.
func (r *Run) InFlightFault() { r.mu.Lock(); r.inflight++; r.mu.Unlock() }

// SetCfg records a configuration item of this run (swarm configuration).
func (r *Run) SetCfg(k string, v any) {
	r.mu.Lock()
	r.Cfg = append(r.Cfg, fmt.Sprintf("%s=%v", k, v))
	r.mu.Unlock()
}

// Now is the simulated time since the start of the run.
func (r *Run) Now() time.Duration {
	if r.endSim >= 0 {
		return time.Duration(r.endSim)
	}
	return time.Since(r.start)
}

// LoopLimit is the number of loop iterations (in the instrumented packages) one goroutine may execute in one
// stretch - without any other goroutine running in between, i.e. without ever blocking - before the run is
// declared to be spinning.  The probes loop-stretch-over-{0.1,1,10}-percent-of-limit count the runs whose
// longest stretch comes near it.
const LoopLimit = 1_000_000

var maxLoopsSeen int64

// MaxLoopsSeen reports the largest per-run loop count of this process.
func MaxLoopsSeen() int64 { return maxLoopsSeen }

// Logf appends an event to the run's event log (hash + tail).  It never draws
// from a PRNG and reads only the simulated clock.
func (r *Run) Logf(format string, a ...any) {
	s := fmt.Sprintf(format, a...)
	r.mu.Lock()
	t := int64(r.Now())
	h := r.hash
	h ^= uint64(t)
	h *= 0x100000001b3
	for i := 0; i < len(s); i++ {
		h ^= uint64(s[i])
		h *= 0x100000001b3
	}
	r.hash = h
	r.lastT = t
	r.nEvents++
	line := fmt.Sprintf("%12.6f %s", float64(t)/1e9, s)
	r.tail[r.tailPos%tailLen] = line
	r.tailPos++
	if r.trace {
		r.full = append(r.full, line)
	}
	r.mu.Unlock()
	if liveLog {
		os.Stderr.WriteString(line + "\n")
	}
}

// liveLog (VERIF_LIVE=1) writes every event to stderr at once: a debugging aid
// for runs that kill the process; it performs system calls inside the bubble
// and is never used by a check.
var liveLog = os.Getenv("VERIF_LIVE") == "1"

// Violate records an oracle failure.  class must be stable across runs (it is
// the identity used for minimisation and for the known-findings file).
func (r *Run) Violate(class, format string, a ...any) {
	msg := fmt.Sprintf(format, a...)
	r.Logf("VIOLATION %s: %s", class, msg)
	r.mu.Lock()
	if len(r.Viol) < 8 {
		r.Viol = append(r.Viol, Violation{Class: class, Msg: msg, At: int64(r.Now())})
	}
	arm := r.cut != nil && r.cutTimer == nil && r.endSim < 0
	if arm {
		// a run that has already shown a violation is cut 30 simulated minutes later if it is
		// still going: code that is broken enough to violate the property may also never
		// finish, and that must be reported as the violation, not as harness trouble
		cut := r.cut
		r.cutTimer = time.AfterFunc(30*time.Minute, func() { cut("30 simulated minutes after the first violation") })
	}
	r.mu.Unlock()
}

// OnCut, when set, receives the result of a run that is abandoned while its bubble is still
// running (simulated-time cap with a violation on record, or the post-violation cut).  It
// must not return: the goroutines of the run cannot be stopped, the process has to end.
var OnCut func(res *Result)

// Failed reports whether a violation was recorded.
func (r *Run) Failed() bool {
	r.mu.Lock()
	defer r.mu.Unlock()
	return len(r.Viol) > 0
}

// Tail returns the last events of the log in order.
func (r *Run) Tail() []string {
	r.mu.Lock()
	defer r.mu.Unlock()
	if r.trace {
		return append([]string(nil), r.full...)
	}
	out := []string{}
	n := r.tailPos
	from := 0
	if n > tailLen {
		from = n - tailLen
	}
	for i := from; i < n; i++ {
		out = append(out, r.tail[i%tailLen])
	}
	return out
}

// Go starts a harness goroutine inside the bubble and tracks it so that the
// leak check can tell harness goroutines from goroutines of the system.
func (r *Run) Go(f func()) {
	r.mu.Lock()
	r.harnessG++
	r.mu.Unlock()
	go func() {
		defer func() {
			r.mu.Lock()
			r.harnessG--
			r.mu.Unlock()
		}()
		f()
	}()
}

// ---------------------------------------------------------------------------
// seeded entropy for crypto/rand

type seededReader struct {
	mu sync.Mutex
	r  *mathrand.ChaCha8
}

func (s *seededReader) Read(b []byte) (int, error) {
	s.mu.Lock()
	defer s.mu.Unlock()
	return s.r.Read(b)
}

func newSeededReader(seed uint64) *seededReader {
	var s [32]byte
	for i := 0; i < 4; i++ {
		v := splitmix(seed + uint64(i)*0x1234567)
		for j := 0; j < 8; j++ {
			s[i*8+j] = byte(v >> (8 * j))
		}
	}
	return &seededReader{r: mathrand.NewChaCha8(s)}
}

// ---------------------------------------------------------------------------
// executing a run

// Scenario is a simulated world + workload + oracle.
type Scenario struct {
	Name     string
	Property string
	Fn       func(r *Run)
	// LeakIsViolation: goroutines of the system still alive when the scenario
	// function returns are reported under this class ("" = only counted).
	LeakClass string
	// Yields enables the seeded yield scheduler for this scenario.
	Yields bool
	// MaxSim is the simulated-time cap of a run (default 72 h).
	MaxSim time.Duration
	// After runs outside the bubble after the scenario function returned (real
	// clock, real scheduler): history checkers such as porcupine go here.
	After func(r *Run)
}

var scenarios = map[string]*Scenario{}

// Register adds a scenario to the registry.
func Register(s *Scenario) { scenarios[s.Name] = s }

// Result is what one run reports.
type Result struct {
	Index     uint64           `json:"i"`
	Scenario  string           `json:"scenario"`
	Seed      uint64           `json:"seed"`
	Hash      string           `json:"hash"`
	Events    int64            `json:"events"`
	SimNS     int64            `json:"sim_ns"`
	Faults    map[string]int64 `json:"faults,omitempty"`
	Probes    map[string]int64 `json:"probes,omitempty"`
	Oblig     int64            `json:"oblig"`
	InFlight  int64            `json:"inflight"`
	Viol      []Violation      `json:"viol,omitempty"`
	Fired     []string         `json:"fired,omitempty"`
	Cfg       []string         `json:"cfg,omitempty"`
	Tail      []string         `json:"tail,omitempty"`
	Sample    []string         `json:"sample,omitempty"`
	Leaked    int              `json:"leaked"`
	Deadlock  string           `json:"deadlock,omitempty"`
	Cut       string           `json:"cut,omitempty"` // the run was abandoned while still going (see OnCut)
	Stacks    string           `json:"stacks,omitempty"`
	WallNS    int64            `json:"wall_ns"`
	Suppress  []string         `json:"suppress,omitempty"`
	NFired    int              `json:"nfired"`
	LeakClass string           `json:"-"`
}

func quietLogrus() {
	logrus.SetOutput(io.Discard)
	logrus.SetLevel(logrus.ErrorLevel)
	logrus.StandardLogger().ExitFunc = func(int) { panic("logrus.Fatal called") }
}

// NewLogEntry returns a discarding logrus entry for muxers.
func NewLogEntry() *logrus.Entry {
	l := logrus.New()
	l.SetOutput(io.Discard)
	l.SetLevel(logrus.ErrorLevel)
	if liveLog && os.Getenv("VERIF_LOGRUS") == "1" { // debugging aid, never used by a check
		l.SetOutput(os.Stderr)
		l.SetLevel(logrus.InfoLevel)
	}
	l.ExitFunc = func(int) { panic("logrus.Fatal called") }
	return logrus.NewEntry(l)
}

var bubbleStackFilter = "synctest bubble"

// bubbleStacks returns the stacks of goroutines that are still parked in a bubble.
func bubbleStacks() (string, []string) {
	buf := make([]byte, 1<<20)
	n := runtime.Stack(buf, true)
	blocks := strings.Split(string(buf[:n]), "\n\n")
	keep := []string{}
	tops := []string{}
	for _, b := range blocks {
		first, _, _ := strings.Cut(b, "\n")
		if !strings.Contains(first, bubbleStackFilter) {
			continue
		}
		keep = append(keep, b)
		// first frame inside the repository
		for _, line := range strings.Split(b, "\n") {
			if strings.HasPrefix(line, "hop.computer/hop/") {
				fn, _, _ := strings.Cut(line, "(0x")
				if i := strings.LastIndex(fn, "("); i > 0 && strings.HasSuffix(fn, ")") && !strings.Contains(fn[i:], "*") {
					fn = fn[:i]
				}
				tops = append(tops, strings.TrimPrefix(fn, "hop.computer/hop/"))
				break
			}
		}
	}
	sort.Strings(tops)
	return strings.Join(keep, "\n\n"), tops
}

// BlockedSummary lists, for every goroutine of the bubble that is executing
// repository code, its wait reason and its innermost repository frames.
func BlockedSummary() string {
	// only goroutines of the CURRENT bubble: goroutines that an earlier run left parked in
	// this process must not leak into this run's event log (its hash would depend on history)
	own := make([]byte, 256)
	own = own[:runtime.Stack(own, false)]
	ownFirst, _, _ := strings.Cut(string(own), "\n")
	filter := bubbleStackFilter
	if i := strings.Index(ownFirst, bubbleStackFilter); i >= 0 {
		filter = strings.TrimSuffix(strings.TrimSuffix(ownFirst[i:], ":"), "]") + "]"
	}
	buf := make([]byte, 1<<20)
	n := runtime.Stack(buf, true)
	out := []string{}
	for _, b := range strings.Split(string(buf[:n]), "\n\n") {
		first, _, _ := strings.Cut(b, "\n")
		if !strings.Contains(first, filter) {
			continue
		}
		reason := first
		if i := strings.Index(first, "["); i >= 0 {
			reason = strings.TrimSuffix(first[i:], ":")
		}
		if i := strings.Index(reason, ", "+bubbleStackFilter); i >= 0 {
			reason = reason[:i] + "]"
		}
		frames := []string{}
		lines := strings.Split(b, "\n")
		for i, line := range lines {
			if strings.HasPrefix(line, "hop.computer/hop/") && i+1 < len(lines) {
				fn, _, _ := strings.Cut(line, "(0x")
				loc := strings.TrimSpace(lines[i+1])
				loc, _, _ = strings.Cut(loc, " +0x")
				if j := strings.LastIndex(loc, "/"); j >= 0 {
					loc = loc[j+1:]
				}
				frames = append(frames, strings.TrimPrefix(fn, "hop.computer/hop/")+"@"+loc)
				if len(frames) == 3 {
					break
				}
			}
		}
		if len(frames) > 0 {
			out = append(out, reason+" "+strings.Join(frames, " < "))
		}
	}
	sort.Strings(out)
	return strings.Join(out, "\n  ")
}

// Execute performs one run of a scenario in a fresh bubble.
func Execute(sc *Scenario, base, index uint64, tier string, suppress []string, trace bool) *Result {
	r := newRun(base, index, sc.Name, tier, suppress, trace)

	// per-run hygiene of process-global state
	rd := newSeededReader(r.seed ^ 0xE27)
	cryptorand.Reader = rd
	randSetTestingReader(rd)
	quietLogrus()
	resetThunks()
	runtime.GC()
	old := debug.SetGCPercent(-1)
	runtimeVerifRandSeed(r.seed ^ 0x5EED)
	// a loop of the code under test that neither ends nor blocks would hang the single-threaded simulation:
	// the instrumented copies count loop iterations, and a run that passes the limit is stopped by a panic
	// in the spinning goroutine (process-fatal, attributed to this run, reproduced by its replay)
	common.VerifLoops = 0
	common.VerifLoopsMax = 0
	common.VerifLoopLimit = LoopLimit
	common.VerifLoopHook = func() {
		common.VerifLoopLimit = 0
		panic(fmt.Sprintf("livelock: more than %d loop iterations on one goroutine without any other goroutine running in between", LoopLimit))
	}
	common.VerifYieldHook = nil
	if sc.Yields {
		r.yield.init(r)
		common.VerifYieldHook = r.yield.hook
	}

	res := &Result{Index: index, Scenario: sc.Name, Seed: base, Suppress: suppress}
	wall := time.Now()
	g0 := runtime.NumGoroutine()
	deadlock := ""
	func() {
		defer func() {
			if e := recover(); e != nil {
				deadlock = fmt.Sprint(e)
			}
		}()
		synctest.VerifRun(func() {
			r.start = time.Now()
			// simulated-time cap: a run that is still going after 72 simulated hours is a
			// harness defect (an unbounded wait); fail fast as infrastructure trouble.
			capSim := sc.MaxSim
			if capSim == 0 {
				capSim = 72 * time.Hour
			}
			r.cut = func(reason string) {
				if r.Failed() && OnCut != nil {
					r.Logf("run cut: %s", reason)
					res.SimNS = int64(time.Since(r.start))
					res.Cut = reason
					r.fill(res, true)
					OnCut(res)
				}
				os.Stderr.WriteString(fmt.Sprintf("sim: simulated-time cap exceeded in scenario %s run %d (seed %d); goroutines:\n  %s\n", sc.Name, index, base, BlockedSummary()))
				os.Exit(4)
			}
			capTimer := time.AfterFunc(capSim, func() { r.cut("simulated-time cap") })
			defer capTimer.Stop()
			defer func() {
				r.mu.Lock()
				if r.cutTimer != nil {
					r.cutTimer.Stop()
				}
				r.cut = nil
				r.mu.Unlock()
			}()
			defer func() {
				if e := recover(); e != nil {
					buf := make([]byte, 16384)
					n := runtime.Stack(buf, false)
					r.Violate("panic-in-scenario-goroutine", "%v\n%s", e, buf[:n])
				}
			}()
			sc.Fn(r)
			res.SimNS = int64(time.Since(r.start))
			if sc.Yields {
				// a goroutine that the yield scheduler is holding in a stall (up to 2 s) when the scenario
				// returns would be counted as left behind: time stops in a bubble whose main function has
				// returned.  Let the stalls run out first (no new ones are started).
				r.YieldsOn(false)
				time.Sleep(3 * time.Second)
			}
			r.endSim = res.SimNS
		})
	}()
	if r.endSim < 0 {
		// the bubble ended abnormally: everything logged from here on (outside the bubble,
		// where time.Now is the real clock) is stamped with the time of the last event
		r.endSim = r.lastT
	}
	common.VerifYieldHook = nil
	debug.SetGCPercent(old)
	if sc.After != nil && deadlock == "" {
		sc.After(r)
	}
	if sc.Yields {
		r.ProbeN("yield-sites-visited", int64(r.collectYields()))
	}
	if common.VerifLoops > common.VerifLoopsMax {
		common.VerifLoopsMax = common.VerifLoops
	}
	for _, b := range []struct {
		n    int64
		name string
	}{{LoopLimit / 10, "loop-stretch-over-10-percent-of-limit"}, {LoopLimit / 100, "loop-stretch-over-1-percent-of-limit"}, {LoopLimit / 1000, "loop-stretch-over-0.1-percent-of-limit"}} {
		if common.VerifLoopsMax > b.n {
			r.Probe(b.name)
			break
		}
	}
	if common.VerifLoopsMax > maxLoopsSeen {
		maxLoopsSeen = common.VerifLoopsMax
	}
	res.WallNS = int64(time.Since(wall))
	leaked := runtime.NumGoroutine() - g0
	if deadlock != "" {
		res.Deadlock = deadlock
		stacks, tops := bubbleStacks()
		res.Stacks = stacks
		res.Leaked = leaked
		if strings.Contains(deadlock, "all goroutines in bubble are blocked") {
			r.Viol = append(r.Viol, Violation{Class: "deadlock", Msg: "all goroutines blocked while the scenario was still running; blocked in: " + strings.Join(tops, ", ")})
		} else if sc.LeakClass != "" && !r.NoLeakCheck {
			r.Viol = append(r.Viol, Violation{Class: sc.LeakClass, Msg: fmt.Sprintf("%d goroutine(s) never finished: %s", leaked, strings.Join(tops, ", "))})
		}
	}
	r.fill(res, trace)
	return res
}

func (r *Run) fill(res *Result, trace bool) {
	res.Hash = fmt.Sprintf("%016x", r.hash)
	res.Events = r.nEvents
	res.Faults = r.faults
	res.Probes = r.probes
	res.Oblig = r.Oblig
	res.InFlight = r.inflight
	res.Viol = r.Viol
	res.NFired = len(r.Fired)
	res.Cfg = r.Cfg
	res.Sample = r.Sample
	if len(r.Viol) > 0 || trace {
		res.Fired = r.Fired
		res.Tail = r.Tail()
	}
}
