//go:build verif

package hopserver

import (
	"io/fs"

	"hop.computer/hop/authgrants"
	"hop.computer/hop/keys"
	"hop.computer/hop/transport"
)

// Hooks for the simulation harness (file added by -overlay; not in the repository).

// VerifNewSession runs the real session code for an accepted handle (what
// HopServer.Serve does for every connection; Serve itself also starts the
// delegate-proxy unix socket, which the simulation does not have).
func (s *HopServer) VerifNewSession(h *transport.Handle) { s.newSession(h) }

// VerifSetFS installs an arbitrary fs.FS (SetFSystem only accepts fstest.MapFS).
func (s *HopServer) VerifSetFS(f fs.FS) { s.fsystem = f }

// VerifGrantCount returns the number of stored grants for (user, key).
func (s *HopServer) VerifGrantCount(user string, key keys.DHPublicKey) int {
	return s.agMap.VerifCount(user, key)
}

var _ = authgrants.Shell
