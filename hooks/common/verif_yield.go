//go:build verif

package common

// VerifYieldHook is set by the simulation harness (DESIGN.md section 2.4).  It is nil
// in every build that does not carry the verif tag, because this file is
// injected with -overlay and does not exist in the repository.
var VerifYieldHook func(site int)

// VerifY is the call inserted by /verif/tools/instrument before synchronisation
// statements of the instrumented copies.
//
//go:norace
func VerifY(site int) {
	if h := VerifYieldHook; h != nil {
		h(site)
	}
}
