//go:build verif

package authgrants

import "hop.computer/hop/keys"

// VerifCount returns the number of grants stored for (user, key).
func (m *AuthgrantMapSync) VerifCount(user string, key keys.DHPublicKey) int {
	m.agLock.Lock()
	defer m.agLock.Unlock()
	return len(m.agMap[user][key])
}
