//go:build verif

package common

// VerifYieldHook is set by the simulation harness (DESIGN.md section 2.4).  It is nil
// in every build that does not carry the verif tag, because this file is
// injected with -overlay and does not exist in the repository.
var VerifYieldHook func(site int)

// VerifY is the call inserted by /verif/tools/instrument before synchronisation
// statements of the instrumented copies.
//
//go:norace
func VerifY(site int) {
	if h := VerifYieldHook; h != nil {
		h(site)
	}
}

// VerifLoops counts loop iterations of the instrumented copies since the harness last reset it;
// VerifLoopHook is called when the count passes VerifLoopLimit (a run that spins without ever blocking
// would otherwise hang the single-threaded simulation instead of being reported).
var (
	VerifLoops     int64
	VerifLoopLimit int64
	VerifLoopHook  func()
)

// VerifL is the call inserted at the top of every loop body of the instrumented copies.
//
//go:norace
func VerifL() {
	VerifLoops++
	if VerifLoops > VerifLoopLimit && VerifLoopLimit > 0 {
		if h := VerifLoopHook; h != nil {
			h()
		}
	}
}
