package sim

import (
	cryptorand "crypto/rand"
	"fmt"
	"net"
	"syscall"
	"time"

	"hop.computer/hop/certs"
	"hop.computer/hop/config"
	"hop.computer/hop/hopserver"
	"hop.computer/hop/keys"
	"hop.computer/hop/transport"
)

// C10 — no unauthenticated datagram can crash or wedge a transport endpoint.

func init() {
	Register(&Scenario{Name: "junk-datagrams", Property: "C10", Fn: scJunk})
}

type vhost struct {
	pattern string
	name    string // a concrete name matching the pattern
	key     *keys.X25519KeyPair
	kem     *keys.KEMKeyPair
	leaf    *certs.Certificate
}

type vhostServer struct {
	notHidden *vhost // a host block that is NOT among the hidden-mode names (nil if every block is)
	srv       *transport.Server
	ep        *Endpoint
	addr      *net.UDPAddr
	pki       *PKI
	hosts     []*vhost
	hidden    bool
}

// startVHostServer builds a transport server whose certificate callbacks are the
// closures of hopserver.NewHopServer around the real NewVirtualHosts/Match/glob
// (that constructor itself opens a real socket, so it cannot be called).
func startVHostServer(r *Run, n *Net, nHosts int, hidden bool, fallback bool, misnamed ...bool) *vhostServer {
	vs := &vhostServer{addr: Addr(1, 77), pki: NewPKI("vh"), hidden: hidden}
	pats := [][2]string{{"alpha.sim", "alpha.sim"}, {"*.beta.sim", "www.beta.sim"}, {"gamma-*", "gamma-7"}, {"d*a.sim", "delta.sim"},
		{"ex.*.sim", "ex.www.sim"}, {"a*a", "aba"}, {"host.*.host", "host.q.host"}}
	sc := &config.ServerConfig{}
	for i := 0; i < nHosts; i++ {
		p := pats[(i+r.Intn("vh", len(pats)))%len(pats)]
		dup := false
		for _, h := range vs.hosts {
			if h.pattern == p[0] {
				dup = true
			}
		}
		if dup {
			p = [2]string{fmt.Sprintf("host%d.sim", i), fmt.Sprintf("host%d.sim", i)}
		}
		h := &vhost{pattern: p[0], name: p[1], key: newX25519()}
		kem, err := keys.GenerateKEMKeyPair(cryptorand.Reader)
		must(err)
		h.kem = kem
		h.leaf = vs.pki.Leaf(h.key.Public, 24*time.Hour, certs.DNSName(h.name), certs.RawStringName(h.name))
		vs.hosts = append(vs.hosts, h)
		sc.Names = append(sc.Names, config.NameConfig{Pattern: h.pattern, Key: h.key, KEMKey: h.kem, Certificate: h.leaf, Intermediate: vs.pki.Int})
		if hidden {
			sc.HiddenModeVHostNames = append(sc.HiddenModeVHostNames, h.name)
		}
	}
	if fallback {
		h := &vhost{pattern: "*", name: "anything.else", key: newX25519()}
		kem, err := keys.GenerateKEMKeyPair(cryptorand.Reader)
		must(err)
		h.kem = kem
		h.leaf = vs.pki.Leaf(h.key.Public, 24*time.Hour, certs.DNSName(h.name), certs.RawStringName(h.name))
		sc.Key, sc.KEMKey, sc.Certificate, sc.Intermediate = h.key, h.kem, h.leaf, vs.pki.Int
		vs.hosts = append(vs.hosts, h)
		if hidden && !(len(misnamed) > 1 && misnamed[1]) {
			sc.HiddenModeVHostNames = append(sc.HiddenModeVHostNames, h.name)
		} else if hidden {
			vs.notHidden = h // the catch-all block exists, but is not enabled for hidden mode
		}
	}
	if len(misnamed) > 0 && misnamed[0] {
		// hidden mode is configured, but none of the hidden names belongs to a host block: the server can serve
		// nobody -- and stays hidden
		sc.HiddenModeVHostNames = []string{"no-such-host.example"}
	}
	vhosts, err := hopserver.NewVirtualHosts(sc, nil, nil)
	must(err)
	getCert := func(info transport.ClientHandshakeInfo) (*transport.Certificate, error) {
		if h := vhosts.Match(string(info.ServerName.Label)); h != nil {
			return &h.Certificate, nil
		}
		return nil, fmt.Errorf("%v did not match a host block", info.ServerName)
	}
	getAllowedCerts := func() ([]*transport.Certificate, error) {
		var certificates []*transport.Certificate
		if len(sc.HiddenModeVHostNames) > len(vhosts) {
			return nil, fmt.Errorf("number of server Hidden Mode VHost Names exceed the number of current vhosts")
		}
		for _, vhostName := range sc.HiddenModeVHostNames {
			if h := vhosts.Match(vhostName); h != nil {
				h.Certificate.HostNames = append(h.Certificate.HostNames, vhostName)
				certificates = append(certificates, &h.Certificate)
			}
		}
		if len(certificates) == 0 {
			return nil, fmt.Errorf("no certificate found on the server")
		}
		return certificates, nil
	}
	vs.ep = n.Listen("server", vs.addr, nil)
	if hopserver.VerifListenPatched && r.Intn("vh", 4) != 0 {
		// the REAL constructor: virtual hosts, hidden-mode activation and the client-verification policy are
		// derived from the server configuration by hopserver.NewHopServer itself (its socket is the simulated one)
		sc.ListenAddress = vs.addr.String()
		sc.InsecureSkipVerify = true
		sc.HandshakeTimeout = 3 * time.Second
		hopserver.VerifListen = func(string) (transport.UDPLike, error) { return vs.ep, nil }
		hs, err := hopserver.NewHopServer(sc)
		hopserver.VerifListen = nil
		must(err)
		vs.srv = hs.Server
		r.Probe("server-built-by-the-real-NewHopServer")
		go vs.srv.Serve()
		return vs
	}
	tconf := transport.ServerConfig{
		GetCertificate: getCert, GetCertList: getAllowedCerts, HandshakeTimeout: 3 * time.Second,
		ClientVerify: &transport.VerifyConfig{InsecureSkipVerify: true}, HiddenModeVHostNames: sc.HiddenModeVHostNames, IsHidden: hidden,
	}
	srv, err := transport.NewServer(vs.ep, tconf)
	must(err)
	vs.srv = srv
	go srv.Serve()
	return vs
}

// epOr returns the server's endpoint (of the single-certificate server if that is the one in use).
func (vs *vhostServer) epOr(single *TServer) *Endpoint {
	if single != nil {
		return single.EP
	}
	return vs.ep
}

func (vs *vhostServer) client(r *Run, n *Net, h *vhost, addr *net.UDPAddr) *TClient {
	tc := &TClient{Addr: addr, Key: newX25519()}
	tc.Leaf = SelfSigned(tc.Key.Public)
	cfg := transport.ClientConfig{Exchanger: tc.Key, Leaf: tc.Leaf, HSTimeout: 3 * time.Second,
		Verify: transport.VerifyConfig{Store: vs.pki.Store(), Name: certs.DNSName(h.name)}}
	if vs.hidden {
		cfg.ServerKEMKey = &h.kem.Public
		// in hidden mode the server derives the name from its own host list (raw type)
		cfg.Verify.Name = certs.RawStringName(h.name)
	}
	tc.Cfg = cfg
	tc.EP = n.Listen("client-"+addr.String(), addr, vs.addr)
	tc.C = transport.NewClient(tc.EP, vs.addr, cfg)
	return tc
}

type liveSess struct {
	tc *TClient
	h  *transport.Handle
}

// probe writes a unique message in both directions and checks delivery.
func (s *liveSess) probe(r *Run, tag string) bool {
	return s.probeC2S(r, tag) && s.probeS2C(r, tag)
}

// probeServerFirst probes server-to-client first (used when the server is the
// endpoint whose address changed: the mover has to speak first).
func (s *liveSess) probeServerFirst(r *Run, tag string) bool {
	return s.probeS2C(r, tag) && s.probeC2S(r, tag)
}

func (s *liveSess) probeC2S(r *Run, tag string) bool {
	ok := true
	buf := make([]byte, 2048)
	msg := append([]byte("probe-c2s-"+tag+"-"), r.Bytes("probe", 8)...)
	if err := s.tc.C.WriteMsg(msg); err != nil {
		r.Logf("probe write c2s failed: %v", err)
		return false
	}
	s.h.SetReadDeadline(time.Now().Add(3 * time.Second))
	for {
		k, err := s.h.ReadMsg(buf)
		if err != nil {
			r.Logf("probe read at server failed: %v", err)
			ok = false
			break
		}
		if string(buf[:k]) == string(msg) {
			break
		}
	}
	return ok
}

func (s *liveSess) probeS2C(r *Run, tag string) bool {
	ok := true
	buf := make([]byte, 2048)
	msg2 := append([]byte("probe-s2c-"+tag+"-"), r.Bytes("probe", 8)...)
	if err := s.h.WriteMsg(msg2); err != nil {
		r.Logf("probe write s2c failed: %v", err)
		return false
	}
	s.tc.C.SetReadDeadline(time.Now().Add(3 * time.Second))
	for {
		k, err := s.tc.C.ReadMsg(buf)
		if err != nil {
			r.Logf("probe read at client failed: %v", err)
			ok = false
			break
		}
		if string(buf[:k]) == string(msg2) {
			break
		}
	}
	return ok
}

func weirdName(r *Run, key string) certs.Name {
	var label []byte
	if r.Intn(key, 8) == 0 {
		// a name of a type the protocol does not know (the type byte is not validated on the wire)
		t := []byte{4, 5, 0x10, 0x7f, 0x80, 0xfe, 0xff}[r.Intn(key, 7)]
		return certs.Name{Type: certs.IDType(t), Label: []byte([]string{"alpha.sim", "ex.www.sim", "", "x"}[r.Intn(key, 4)])}
	}
	if r.Intn(key, 4) == 0 {
		// names that sit on the edges of the host patterns in use: the literal parts of a pattern pushed
		// together, cut by one character, doubled
		edge := []string{"ex.sim", "ex..sim", "ex.sim.sim", "a", "aa", "host.host", "host..host", "gamma-", "gamma", "da.sim", "d.sim", ".beta.sim", "beta.sim", "*", "ex.*.sim"}
		return certs.Name{Type: certs.TypeDNSName, Label: []byte(edge[r.Intn(key, len(edge))])}
	}
	switch r.Intn(key, 10) {
	case 0:
		label = []byte{}
	case 1:
		label = nil
	case 2:
		label = []byte("*")
	case 3:
		label = []byte("a*b*")
	case 4:
		label = make([]byte, 252)
		for i := range label {
			label[i] = 'a' + byte(i%3)
		}
	case 5:
		label = r.Bytes(key, 1+r.Intn(key, 40))
	case 6:
		label = []byte("alpha.sim")
	case 7:
		label = []byte("alpha.si")
	case 8:
		label = []byte("x.beta.sim.")
	default:
		label = []byte("gamma-")
	}
	types := []certs.IDType{certs.TypeRaw, certs.TypeDNSName, certs.TypeIPv4Address, certs.TypeIPv6Address, 0x7f, 0xff}
	return certs.Name{Label: label, Type: types[r.Intn(key, len(types))]}
}

func scJunk(r *Run) {
	n := NewNet(r)
	defer n.Stop()
	n.Cfg.Latency = time.Duration(1+r.Intn("cfg", 10)) * time.Millisecond
	mode := r.Intn("cfg", 5) // 0 single, 1 vhosts no fallback, 2 vhosts+fallback, 3 hidden single, 4 hidden multi
	hidden := mode >= 3
	nHosts := 1
	switch mode {
	case 1, 2:
		nHosts = 1 + r.Intn("cfg", 3)
	case 4:
		nHosts = 2 + r.Intn("cfg", 2)
	}
	r.SetCfg("mode", mode)
	r.SetCfg("hosts", nHosts)
	vs := startVHostServer(r, n, nHosts, hidden, mode == 2 || (mode == 0 && false))
	if mode == 0 || mode == 3 {
		// single certificate configuration through the plain ServerConfig path
		vs.srv.Close()
		vs.ep.Close()
		n.Unroute(vs.addr)
		vs = nil
	}
	var single *TServer
	if vs == nil {
		single = StartServer(r, n, ServerOpts{Hidden: hidden, HSTimeout: 3 * time.Second})
	}
	srvAddr := Addr(1, 77)
	var srv *transport.Server
	if single != nil {
		srv = single.Srv
	} else {
		srv = vs.srv
	}
	srvEP := vs.epOr(single)
	newHonest := func(i int, addr *net.UDPAddr) *TClient {
		if single != nil {
			return NewTClient(r, n, single, ClientOpts{Addr: addr, Hidden: hidden, HSTimeout: 3 * time.Second})
		}
		return vs.client(r, n, vs.hosts[i%len(vs.hosts)], addr)
	}

	// capture honest traffic by message type for the mutation-based attacker
	captured := map[byte][]byte{}
	capOrder := []byte{}
	n.OnSend = func(d *Dgram) {
		if len(d.Data) == 0 {
			return
		}
		if _, ok := captured[d.Data[0]]; !ok {
			capOrder = append(capOrder, d.Data[0])
		}
		captured[d.Data[0]] = append([]byte(nil), d.Data...)
	}

	// honest sessions established before the junk (one per certificate in multi-certificate configurations)
	reg := NewHandleRegistry(r, srv)
	var live []*liveSess
	nLive := 1 + r.Intn("cfg", 2)
	if vs != nil && len(vs.hosts) > nLive {
		nLive = len(vs.hosts)
	}
	for i := 0; i < nLive; i++ {
		tc := newHonest(i, Addr(byte(20+i), 5000+i))
		if err := tc.C.Handshake(); err != nil {
			r.Violate("C10/nofault/honest-handshake-failed", "honest handshake #%d (mode %d, host %d) failed before any junk was sent: %v", i, mode, i, err)
			return
		}
		if h := reg.For(tc.C, 5*time.Second); h != nil {
			live = append(live, &liveSess{tc, h})
		} else {
			r.Violate("C10/nofault/honest-accept-failed", "server never offered honest connection #%d (mode %d)", i, mode)
			return
		}
	}
	for i, s := range live {
		if !s.probe(r, fmt.Sprintf("pre%d", i)) {
			r.Violate("C10/nofault/probe-failed", "probe on a fresh session failed before any junk was sent")
			return
		}
	}

	// the attacker also tampers with its OWN, otherwise valid, handshake messages in flight: the two
	// length prefixes inside the encrypted certificate block are set (by XOR, it is a stream cipher and the
	// attacker knows its own plaintext) to values at and around the block length
	unreachable := map[string]bool{}
	srvEP.WriteErr = func(dst *net.UDPAddr) error {
		if unreachable[dst.String()] {
			return syscall.ENETUNREACH
		}
		return nil
	}
	atkLeafLen := map[string]int{}
	// attackers that follow the protocol with the real client code, except that (a) the certificate blob in
	// their ClientAuth is of their own making, or (b) they stop after the ClientAck and leave a half-open
	// handshake behind
	type atkInfo struct {
		c       *transport.Client
		leaf    []byte
		abandon bool
	}
	atkBy := map[string]*atkInfo{}
	var abandoned []*net.UDPAddr
	n.Tap = func(d *Dgram) bool {
		if len(d.Data) > 0 {
			if ai := atkBy[d.Dst.String()]; ai != nil && ai.leaf != nil && d.Data[0] == 0x02 {
				if ai.c.VerifSetHandshakeLeaf(ai.leaf) {
					r.CountFault("junk-own-certificate-blob", 1)
				}
			}
			if ai := atkBy[d.Src.String()]; ai != nil && ai.abandon && d.Data[0] == 0x05 {
				r.CountFault("junk-handshake-abandoned-after-ack", 1)
				// the half-open session exists on the server now (its id is in the clear in the ServerAuth the
				// attacker got, and in this ClientAuth): transport and control packets for it, sealed correctly
				// under keys anybody can guess
				var sid [4]byte
				copy(sid[:], d.Data[4:8])
				src := d.Src
				for q := 0; q < 1+r.Intn("zerokey", 4); q++ {
					var key [16]byte
					switch r.Intn("zerokey", 3) {
					case 1:
						for i := range key {
							key[i] = 0xff
						}
					case 2:
						copy(key[:], sid[:])
					}
					mt := transport.MessageTypeTransport
					if r.Intn("zerokey", 3) == 0 {
						mt = transport.MessageTypeControl
					}
					pkt, err := transport.VerifSealWithKey(sid, uint64(r.Intn("zerokey", 3)), key, mt, r.Bytes("zerokey", r.Intn("zerokey", 40)))
					if err == nil {
						n.Inject(src, srvAddr, pkt, time.Duration(1+r.Intn("zerokey", 2000))*time.Millisecond, "guessable-key packet for a half-open session")
						r.CountFault("junk-guessable-key-packet-for-half-open-session", 1)
					}
				}
				return false
			}
		}
		ll, ok := atkLeafLen[d.Src.String()]
		if !ok || len(d.Data) < 16 {
			return true
		}
		off := -1
		switch d.Data[0] {
		case 0x05:
			off = 8
		case 0x08:
			off = 4 + kemKeyLen + kemCtLen
		}
		if off < 0 || len(d.Data) < off+2 || r.Intn("tamper", 2) == 0 {
			return true
		}
		enc := int(d.Data[2])<<8 | int(d.Data[3])
		target := []int{enc - 1, enc - 2, enc, enc - 3, enc - 4, enc + 1, 0xffff, 0, ll + 1, ll - 1}[r.Intn("tamper", 10)]
		if target < 0 {
			target = 0
		}
		c := d.clone()
		x := ll ^ target
		c.Data[off] ^= byte(x >> 8)
		c.Data[off+1] ^= byte(x)
		if r.Intn("tamper", 3) == 0 && len(c.Data) >= off+2+ll+2 { // the second vector's prefix instead
			c.Data[off], c.Data[off+1] = d.Data[off], d.Data[off+1]
			c.Data[off+2+ll] ^= byte(r.U64("tamper"))
			c.Data[off+2+ll+1] ^= byte(1 + r.Intn("tamper", 255))
		}
		c.Mut = fmt.Sprintf("length-prefix:=%d", target)
		r.CountFault("junk-own-handshake-length-prefix", 1)
		n.Redeliver(c, n.Cfg.Latency)
		return false
	}
	// attacker
	third := Addr(66, 6000)
	nJunk := 20 + r.Intn("cfg", 200)
	if r.Tier == "thorough" {
		nJunk = 50 + r.Intn("cfg", 1500)
	}
	r.SetCfg("junk", nJunk)
	atkClients := []*transport.Client{}
	midHandshake := newHonest(0, Addr(30, 5100))
	midDone := make(chan error, 1)
	startMid := r.Intn("cfg", nJunk)
	// one established session is closed in the middle of the junk (endpoint state "closing"/closed):
	// datagrams that copy its public header keep arriving afterwards
	closeAt := -1
	var closedSess *liveSess
	if len(live) > 1 && r.Intn("cfg", 2) == 0 {
		closeAt = r.Intn("cfg", nJunk)
	}
	for i := 0; i < nJunk; i++ {
		if i == startMid {
			r.Go(func() { midDone <- midHandshake.C.Handshake() })
		}
		if i == closeAt {
			closedSess = live[len(live)-1]
			live = live[:len(live)-1]
			cs := closedSess
			r.Go(func() { cs.tc.C.Close() })
			r.CountFault("session-closed-during-junk", 1)
			live = append(live, closedSess) // still a target of header-copying junk
		}
		if !r.Op("junk") {
			continue
		}
		from := third
		if r.Intn("junk", 3) == 0 {
			from = Addr(byte(67+r.Intn("junk", 50)), 1+r.Intn("junk", 65000))
		}
		spoof := r.Intn("junk", 4) == 0
		dst := srvAddr
		toClient := r.Intn("junk", 5) == 0
		victim := live[r.Intn("junk", len(live))]
		if toClient {
			dst = victim.tc.Addr
			from = third
			if spoof {
				from = srvAddr
			}
		} else if spoof {
			from = victim.tc.Addr
		}
		var pkt []byte
		kind := r.Intn("junk", 7)
		switch kind {
		case 0: // random bytes, biased lengths
			var l int
			switch r.Intn("junk", 6) {
			case 0:
				l = r.Intn("junk", 5)
			case 1:
				l = r.Intn("junk", 64)
			case 2:
				l = 800 + r.Intn("junk", 900)
			case 3:
				l = 65000 + r.Intn("junk", 536)
			default:
				l = r.Intn("junk", 3000)
			}
			pkt = r.Bytes("junk", l)
			if l > 0 && r.Intn("junk", 2) == 0 {
				pkt[0] = []byte{1, 2, 3, 4, 5, 8, 9, 0x10, 0x80}[r.Intn("junk", 9)]
			}
			r.CountFault("junk-random", 1)
		case 1, 2: // truncation / extension of a captured valid message
			if len(capOrder) == 0 {
				continue
			}
			base := captured[capOrder[r.Intn("junk", len(capOrder))]]
			pkt = append([]byte(nil), base...)
			switch r.Intn("junk", 5) {
			case 0:
				pkt = pkt[:r.Intn("junk", min(len(pkt), 64))]
			case 1:
				pkt = pkt[:len(pkt)-1-r.Intn("junk", min(len(pkt)-1, 40))]
			case 2:
				pkt = pkt[:r.Intn("junk", len(pkt))]
			case 3:
				pkt = append(pkt, r.Bytes("junk", 1+r.Intn("junk", 64))...)
			default:
				pkt = pkt[:4+r.Intn("junk", 4)]
			}
			r.CountFault("junk-truncate-extend", 1)
		case 3: // single field mutation of a captured valid message
			if len(capOrder) == 0 {
				continue
			}
			base := captured[capOrder[r.Intn("junk", len(capOrder))]]
			pkt = append([]byte(nil), base...)
			switch r.Intn("junk", 5) {
			case 0: // length / reserved bytes to extremes
				v := []byte{0, 1, 0x7f, 0xff}[r.Intn("junk", 4)]
				pkt[1+r.Intn("junk", 3)] = v
			case 1:
				pkt[2], pkt[3] = 0xff, 0xff
			case 2:
				pkt[2], pkt[3] = 0, 0
			default:
				off := r.Intn("junk", len(pkt))
				pkt[off] ^= byte(1 + r.Intn("junk", 255))
			}
			r.CountFault("junk-field-mutation", 1)
		case 4: // copied public header fields of a live session, short or arbitrary remainder
			vsess, _ := victim.tc.C.VerifSession()
			l := 8 + r.Intn("junk", 52)
			if r.Intn("junk", 3) == 0 {
				l = 48 + r.Intn("junk", 500)
			}
			if r.Intn("junk", 6) == 0 {
				// the largest datagrams a UDP socket can deliver: at and beyond what an honest peer ever sends
				l = []int{64503, 64550, 64551, 64552, 64553, 65000, 65506, 65507}[r.Intn("junk", 8)]
				r.CountFault("junk-maximum-size-datagram", 1)
			}
			pkt = make([]byte, l)
			copy(pkt, r.Bytes("junk", min(l, 600)))
			pkt[0] = 0x10
			if r.Intn("junk", 3) == 0 {
				pkt[0] = 0x80
			}
			pkt[1], pkt[2], pkt[3] = 0, 0, 0
			copy(pkt[4:8], vsess.ID[:])
			r.CountFault("junk-live-session-header", 1)
		case 5, 6: // semantically valid unauthenticated prefix made with the real client code
			ak := newX25519()
			cfg := transport.ClientConfig{Exchanger: ak, Leaf: SelfSigned(ak.Public), HSTimeout: time.Second,
				Verify: transport.VerifyConfig{InsecureSkipVerify: true, Name: weirdName(r, "junk")}}
			if hidden {
				// request under a wrong or a right KEM key
				if r.Intn("junk", 2) == 0 || vs == nil {
					kem, err := keys.GenerateKEMKeyPair(cryptorand.Reader)
					must(err)
					cfg.ServerKEMKey = &kem.Public
					if single != nil && r.Intn("junk", 2) == 0 {
						cfg.ServerKEMKey = &single.KEM.Public
					}
				} else {
					cfg.ServerKEMKey = &vs.hosts[r.Intn("junk", len(vs.hosts))].kem.Public
				}
			}
			aaddr := Addr(byte(120+r.Intn("junk", 100)), 7000+i)
			if r.Intn("junk", 6) == 0 {
				// the server cannot send to this source (spoofed, unroutable): its answers fail with an error
				unreachable[aaddr.String()] = true
				r.CountFault("junk-from-source-the-server-cannot-reach", 1)
			}
			ep := n.Listen("atk", aaddr, srvAddr)
			c := transport.NewClient(ep, srvAddr, cfg)
			lb, lerr := cfg.Leaf.Marshal()
			switch how := r.Intn("junk", 4); {
			case how == 0 && !hidden && lerr == nil:
				var blob []byte
				switch r.Intn("junk", 5) {
				case 0, 1: // cut anywhere (also exactly between two fields)
					blob = append([]byte(nil), lb[:r.Intn("junk", len(lb))]...)
				case 2:
					blob = append(append([]byte(nil), lb[:r.Intn("junk", len(lb))]...), r.Bytes("junk", 1+r.Intn("junk", 40))...)
				case 3:
					blob = append([]byte(nil), lb...)
					blob[r.Intn("junk", len(blob))] ^= byte(1 + r.Intn("junk", 255))
				default:
					blob = r.Bytes("junk", 1+r.Intn("junk", 600))
				}
				atkBy[aaddr.String()] = &atkInfo{c: c, leaf: blob}
			case how == 1 && !hidden && len(abandoned) < 2:
				atkBy[aaddr.String()] = &atkInfo{c: c, abandon: true}
				abandoned = append(abandoned, aaddr)
				if r.Intn("twice", 2) == 0 {
					// ... and while that handshake is still pending on the server, the same address starts another
					// one, again with a name of the attacker's choosing (one the server may be unable to answer)
					wait := time.Duration(50+r.Intn("twice", 2500)) * time.Millisecond
					cfg2 := cfg
					cfg2.Verify.Name = weirdName(r, "twice")
					if r.Intn("twice", 2) == 0 {
						cfg2.Verify.Name = certs.DNSName("no-such-host.nowhere")
					}
					ak2 := newX25519()
					cfg2.Exchanger, cfg2.Leaf = ak2, SelfSigned(ak2.Public)
					r.Go(func() {
						time.Sleep(wait)
						WithTimeout(r, 10*time.Second, func() { c.Close() })
						ep2 := n.Listen("atk-again", aaddr, srvAddr)
						c2 := transport.NewClient(ep2, srvAddr, cfg2)
						WithTimeout(r, 10*time.Second, func() { c2.Handshake() })
						WithTimeout(r, 10*time.Second, func() { c2.Close() })
						r.CountFault("junk-second-handshake-from-an-address-with-a-pending-one", 1)
					})
				}
			default:
				if lerr == nil {
					atkLeafLen[aaddr.String()] = len(lb)
				}
			}
			atkClients = append(atkClients, c)
			r.Go(func() { c.Handshake() })
			r.CountFault("junk-real-client-prefix", 1)
			time.Sleep(time.Duration(r.Intn("junk", 30)) * time.Millisecond)
			continue
		}
		n.Inject(from, dst, pkt, 0, "junk")
		if r.Intn("junk", 3) == 0 {
			time.Sleep(time.Duration(r.Intn("junk", 20)) * time.Millisecond)
		}
	}
	// wait out the handshake timeout
	time.Sleep(8 * time.Second)
	select {
	case err := <-midDone:
		r.Obligation(1)
		if err != nil {
			r.Violate("C10/honest-handshake-wedged", "honest handshake started during the junk failed although the network delivered all its packets: %v", err)
		} else {
			if h := reg.For(midHandshake.C, 5*time.Second); h != nil {
				live = append(live, &liveSess{midHandshake, h})
			} else {
				r.Violate("C10/honest-accept-wedged", "server never offered the honest connection whose handshake ran during the junk")
			}
		}
	default:
	}
	// oracle: established sessions still work, a fresh handshake from a fresh address completes
	if closedSess != nil {
		kept := live[:0]
		for _, s := range live {
			if s != closedSess {
				kept = append(kept, s)
			}
		}
		live = kept
	}
	for i, s := range live {
		r.Obligation(1)
		if !s.probe(r, fmt.Sprintf("post%d", i)) {
			r.Violate("C10/established-session-broken", "session %d established before the junk no longer delivers a probe in both directions (mode %d)", i, mode)
		}
	}
	// an address that left a half-open handshake behind (more than the handshake timeout ago) is not
	// locked out: an honest client behind the same address and port completes its handshake
	for i, a := range abandoned {
		if ai := atkBy[a.String()]; ai != nil {
			ai.c.Close()
			delete(atkBy, a.String())
		}
		delete(unreachable, a.String()) // (the honest client behind that address can be reached)
		again := newHonest(i, a)
		r.Obligation(1)
		if err := again.C.Handshake(); err != nil {
			r.Violate("C10/handshake-after-abandoned-one-fails", "honest handshake from %s failed (mode %d): %v; more than 8 simulated seconds earlier a handshake from that address had been abandoned after its ClientAck (handshake timeout 3 s)", a, mode, err)
		} else if h := reg.For(again.C, 5*time.Second); h == nil {
			r.Violate("C10/handshake-after-abandoned-one-fails", "server never offered the honest connection from %s, an address that had abandoned a handshake earlier", a)
		} else {
			live = append(live, &liveSess{again, h})
		}
	}
	fresh := newHonest(r.Intn("cfg", 8), Addr(40, 5200))
	r.Obligation(1)
	if err := fresh.C.Handshake(); err != nil {
		r.Violate("C10/fresh-handshake-fails", "honest handshake from a fresh address after the junk failed (mode %d): %v", mode, err)
	} else {
		if h := reg.For(fresh.C, 5*time.Second); h != nil {
			fs := &liveSess{fresh, h}
			if !fs.probe(r, "fresh") {
				r.Violate("C10/fresh-session-broken", "probe on the fresh session after the junk failed")
			}
		} else {
			r.Violate("C10/fresh-accept-fails", "server never offered the fresh honest connection after the junk")
		}
	}
	r.Sample = append(r.Sample, fmt.Sprintf("mode=%d hosts=%d junk=%d live=%d", mode, nHosts, nJunk, len(live)))
	for _, c := range atkClients {
		c.Close()
	}
	midHandshake.C.Close()
	fresh.C.Close()
	for _, s := range live {
		s.tc.C.Close()
	}
	srv.Close()
}
