package sim

import (
	"errors"
	"fmt"
	"io"
	"os"
	"sort"
	"strings"
	"time"

	"github.com/anishathalye/porcupine"

	"hop.computer/hop/common"
)

// C17 (a) — deadline queues are safe under concurrent use: linearizable
// against a FIFO-with-close model that is permissive about when a timeout may
// be reported and strict about values, order, duplication and end-of-stream.

func init() {
	Register(&Scenario{Name: "deadline-queue", Property: "C17", Fn: scQueue, After: queueAfter, Yields: true, LeakClass: "C17/queue-goroutine-leak"})
}

const (
	qSend = iota
	qRecv
	qSetDeadline
	qCancel
	qClose
)

var qOpNames = []string{"Send", "Recv", "SetDeadline", "Cancel", "Close"}

var errQueueCancelled = errors.New("sim: cancelled by the program")

func classify(err error) int {
	switch {
	case err == nil:
		return ErrNone
	case errors.Is(err, io.EOF):
		return ErrEOF
	case errors.Is(err, os.ErrDeadlineExceeded):
		return ErrTimeout
	case errors.Is(err, errQueueCancelled):
		return ErrCancelled
	}
	return ErrOther
}

type qProgOp struct {
	op    int
	arg   int64
	pause time.Duration
}

func scQueue(r *Run) {
	capacity := []int{0, 1, 3}[r.Intn("cfg", 3)]
	nG := 2 + r.Intn("cfg", 5)
	// the whole program is drawn before any worker starts: workers never touch the Run
	progs := make([][]qProgOp, nG)
	next := int64(1)
	desc := []string{}
	for g := range progs {
		nOps := 1 + r.Intn("cfg", 4)
		for k := 0; k < nOps; k++ {
			if !r.Op(fmt.Sprintf("g%d", g)) {
				continue
			}
			var o qProgOp
			switch x := r.Intn("op", 12); {
			case x < 4:
				o = qProgOp{op: qSend, arg: next}
				next++
			case x < 8:
				o = qProgOp{op: qRecv}
			case x < 10:
				// deadline: in the past, soon, later, or none
				o = qProgOp{op: qSetDeadline, arg: []int64{-1, 0, int64(1 + r.Intn("op", 30)), int64(50 + r.Intn("op", 200))}[r.Intn("op", 4)]}
				if o.arg > 0 && k+1 < nOps && r.Intn("op", 3) == 0 {
					// ... and the deadline is taken back before it is reached
					progs[g] = append(progs[g], o)
					desc = append(desc, fmt.Sprintf("g%d:%s(%d)", g, qOpNames[o.op], o.arg))
					o = qProgOp{op: qSetDeadline, arg: 0}
					k++
				}
			case x < 11:
				o = qProgOp{op: qCancel}
			default:
				o = qProgOp{op: qClose}
			}
			if r.Intn("op", 3) == 0 {
				o.pause = time.Duration(r.Intn("op", 40)) * time.Millisecond
			}
			progs[g] = append(progs[g], o)
			desc = append(desc, fmt.Sprintf("g%d:%s(%d)", g, qOpNames[o.op], o.arg))
		}
	}
	r.SetCfg("cap", capacity)
	r.Sample = append(r.Sample, strings.Join(desc, " "))
	r.ArmYields([]string{"common."}, 1+r.Intn("cfg", 5), 1+r.Intn("cfg", 20), []float64{0.1, 0.5, 1}[r.Intn("cfg", 3)])
	r.YieldsOn(true)

	q := common.NewDeadlineChan[int64](capacity)
	h := &r.Hist
	done := make(chan int, nG)
	for g := range progs {
		g := g
		r.Go(func() {
			for _, o := range progs[g] {
				if o.pause > 0 {
					time.Sleep(o.pause)
				}
				id := h.Invoke(g, o.op, o.arg)
				switch o.op {
				case qSend:
					err := q.Send(o.arg)
					h.Return(id, 0, classify(err))
				case qRecv:
					v, err := q.Recv()
					h.Return(id, v, classify(err))
				case qSetDeadline:
					var t time.Time
					switch {
					case o.arg < 0:
						t = time.Now().Add(-time.Second)
					case o.arg > 0:
						t = time.Now().Add(time.Duration(o.arg) * time.Millisecond)
					}
					h.Return(id, 0, classify(q.SetDeadline(t)))
				case qCancel:
					h.Return(id, 0, classify(q.Cancel(errQueueCancelled)))
				case qClose:
					h.Return(id, 0, classify(q.Close()))
				}
			}
			done <- g
		})
	}
	// every program contains a release: the harness closes the queue at the end
	finished := 0
	deadline := time.After(10 * time.Second)
	closed := false
	closeReturned := make(chan struct{})
wait:
	for finished < nG {
		select {
		case <-done:
			finished++
		case <-deadline:
			if !closed {
				closed = true
				viaDeadline := r.Intn("release", 8) != 0
				r.Go(func() {
					if viaDeadline {
						// release by an expired deadline first (a blocked Send holds the queue mutex, which
						// Close needs: known finding close-behind-blocked-send), then close
						id := h.Invoke(99, qSetDeadline, -1)
						h.Return(id, 0, classify(q.SetDeadline(time.Now().Add(-time.Second))))
					}
					id := h.Invoke(99, qClose, 0)
					h.Return(id, 0, classify(q.Close()))
					close(closeReturned)
				})
				deadline = time.After(30 * time.Second)
				continue
			}
			break wait
		}
	}
	r.YieldsOn(false)
	r.Obligation(1)
	if finished < nG {
		pending := []string{}
		for _, e := range h.Events() {
			if e.Ret == 0 {
				pending = append(pending, fmt.Sprintf("g%d:%s(%d)", e.G, qOpNames[e.Op], e.Arg))
			}
		}
		class := "C17/queue-call-never-returns"
		for _, e := range h.Events() {
			if e.Ret == 0 && e.Op == qClose {
				// Close waits for the mutex that a blocked Send holds while it waits
				class = "C17/queue-call-never-returns/close-behind-blocked-send"
			}
		}
		r.NoLeakCheck = true
		r.Violate(class, "operations still blocked 30 simulated seconds after the queue was closed: %s; goroutines:\n  %s", strings.Join(pending, ", "), BlockedSummary())
	}
	time.Sleep(2 * time.Second) // let timer goroutines that were stalled by a yield finish
	// post-condition: once Close has completed and every deadline of the program has long expired, a
	// receive on the closed queue returns what is still queued and then end-of-stream (not a timeout)
	if finished == nG && closed {
		// (the harness's own Close may still be inside a yield stall; the post-condition is about a Close that
		// has returned)
		select {
		case <-closeReturned:
		case <-time.After(2 * time.Minute):
			r.NoLeakCheck = true
			r.Violate("C17/queue-call-never-returns", "Close, called when every program had finished, has not returned after 2 simulated minutes; goroutines:\n  %s", BlockedSummary())
			return
		}
		time.Sleep(time.Second)
		for k := 0; k < 16; k++ {
			id := h.Invoke(97, qRecv, 0)
			var v int64
			var err error
			if !WithTimeout(r, 10*time.Second, func() { v, err = q.Recv() }) {
				r.NoLeakCheck = true
				r.Violate("C17/queue-call-never-returns", "Recv on a closed queue blocks")
				break
			}
			h.Return(id, v, classify(err))
			if err != nil {
				r.Obligation(1)
				if classify(err) != ErrEOF {
					r.Violate("C17/queue-closed-recv-not-eof", "Recv on a queue whose Close completed seconds ago returned %v instead of end-of-stream", err)
				}
				break
			}
		}
	}
	for _, e := range h.Events() {
		r.Logf("g%d %s(%d) call=%d ret=%d out=%d err=%d", e.G, qOpNames[e.Op], e.Arg, e.Call, e.Ret, e.Out, e.Err)
	}
}

type qState struct {
	items  string // comma separated FIFO content (comparable state for porcupine)
	closed bool
}

func qPush(s string, v int64) string {
	if s == "" {
		return fmt.Sprint(v)
	}
	return s + "," + fmt.Sprint(v)
}

func qHead(s string) (string, string, bool) {
	if s == "" {
		return "", "", false
	}
	h, rest, _ := strings.Cut(s, ",")
	return h, rest, true
}

var queueModel = porcupine.Model{
	Init: func() interface{} { return qState{} },
	Step: func(state, input, output interface{}) (bool, interface{}) {
		st := state.(qState)
		in := input.(HistEv)
		out := output.(HistEv)
		switch in.Op {
		case qSend:
			switch out.Err {
			case ErrNone:
				if st.closed {
					return false, st
				}
				st.items = qPush(st.items, in.Arg)
				return true, st
			case ErrEOF:
				return st.closed, st
			case ErrTimeout, ErrCancelled:
				return true, st // a timeout may be reported at any time
			}
			return false, st
		case qRecv:
			switch out.Err {
			case ErrNone:
				h, rest, ok := qHead(st.items)
				if !ok || h != fmt.Sprint(out.Out) {
					return false, st
				}
				st.items = rest
				return true, st
			case ErrEOF:
				// end-of-stream only after close AND after everything queued before it was returned
				return st.closed && st.items == "", st
			case ErrTimeout, ErrCancelled:
				return true, st
			}
			return false, st
		case qSetDeadline, qCancel:
			if out.Err == ErrEOF {
				return st.closed, st
			}
			return out.Err == ErrNone && !st.closed, st
		case qClose:
			if out.Err == ErrNone {
				if st.closed {
					return false, st
				}
				st.closed = true
				return true, st
			}
			return out.Err == ErrEOF && st.closed, st
		}
		return false, st
	},
	Equal: func(a, b interface{}) bool { return a.(qState) == b.(qState) },
	DescribeOperation: func(input, output interface{}) string {
		in, out := input.(HistEv), output.(HistEv)
		return fmt.Sprintf("g%d %s(%d) -> out=%d err=%d", in.G, qOpNames[in.Op], in.Arg, out.Out, out.Err)
	},
}

func queueAfter(r *Run) {
	evs := r.Hist.Events()
	ops := []porcupine.Operation{}
	for _, e := range evs {
		if e.Ret == 0 {
			return // reported as never-returning already
		}
		if e.Err == ErrOther {
			r.Violate("C17/queue-unexpected-error", "g%d %s(%d) returned an error that is neither end-of-stream, a timeout nor the program's cancellation", e.G, qOpNames[e.Op], e.Arg)
			return
		}
		ops = append(ops, porcupine.Operation{ClientId: e.G % 100, Input: e, Call: e.Call, Output: e, Return: e.Ret})
	}
	// A timeout needs a deadline: the model below lets a timeout be reported at any point of the order, so
	// this is judged on the clock.  A Send/Recv that returned a timeout at instant T is justified by a
	// SetDeadline call D with a non-zero instant d <= T that was invoked before the call returned and was not
	// certainly replaced (by a SetDeadline that began after D had returned and had itself returned before
	// the call was invoked; that one is a candidate of its own).
	for _, e := range evs {
		if (e.Op != qSend && e.Op != qRecv) || e.Err != ErrTimeout {
			continue
		}
		r.Obligation(1)
		justified := false
		for _, d := range evs {
			if d.Op != qSetDeadline || d.Arg == 0 || d.Call > e.Ret { // (a call that lost against Close and reported end-of-stream may have taken effect)
				continue
			}
			at := d.At + d.Arg*int64(time.Millisecond)
			if d.Arg < 0 {
				at = d.At - int64(time.Second)
			}
			if at > e.RetAt {
				continue
			}
			replaced := false
			for _, d2 := range evs {
				if d2.Op == qSetDeadline && d2.Err == ErrNone && d2.Call > d.Ret && d2.Ret < e.Call {
					replaced = true
					break
				}
			}
			if !replaced {
				justified = true
				break
			}
		}
		if !justified {
			sort.Slice(evs, func(i, j int) bool { return evs[i].Call < evs[j].Call })
			lines := []string{}
			for _, x := range evs {
				lines = append(lines, fmt.Sprintf("[%d,%d] t=%.3f..%.3fms g%d %s(%d) -> out=%d err=%s", x.Call, x.Ret, float64(x.At-evs[0].At)/1e6, float64(x.RetAt-evs[0].At)/1e6, x.G, qOpNames[x.Op], x.Arg, x.Out, []string{"nil", "EOF", "timeout", "cancelled", "other"}[x.Err]))
			}
			r.Violate("C17/queue-timeout-without-deadline", "g%d %s returned a timeout although no deadline that was in force during the call had been reached when it returned:\n  %s", e.G, qOpNames[e.Op], strings.Join(lines, "\n  "))
			return
		}
	}
	r.Obligation(int64(len(ops)))
	res := porcupine.CheckOperationsTimeout(queueModel, ops, 20*time.Second)
	switch res {
	case porcupine.Illegal:
		sort.Slice(evs, func(i, j int) bool { return evs[i].Call < evs[j].Call })
		lines := []string{}
		for _, e := range evs {
			lines = append(lines, fmt.Sprintf("[%d,%d] g%d %s(%d) -> out=%d err=%s", e.Call, e.Ret, e.G, qOpNames[e.Op], e.Arg, e.Out, []string{"nil", "EOF", "timeout", "cancelled", "other"}[e.Err]))
		}
		r.Violate("C17/queue-history-not-linearizable", "no linearization of this history satisfies the FIFO-with-close model (values, order, duplication, end-of-stream only after close and after queued items):\n  %s", strings.Join(lines, "\n  "))
	case porcupine.Unknown:
		r.Probe("porcupine-inconclusive")
	}
}
