"""Per-property check configuration for bin/check (scenarios, budgets, evidence texts)."""

RULE_GENERIC = ("one evaluation = one simulated run (one synctest bubble) fully determined by (VERIF_SEED, run index): "
                "swarm-drawn configuration, workload and fault schedule. A run is non-trivial if at least one fault, "
                "adversarial action or armed yield actually fired in it AND its oracle evaluated at least one non-vacuous "
                "obligation; distinct = distinct hash of the complete event log among non-trivial runs.")

PROPS = {}

REAL = {}
STUB = {}

COMMON_STUB = ["UDP sockets (SimNet implementing transport.UDPLike / transport.MsgConn)", "OS clock (testing/synctest fake clock)",
               "entropy (seeded ChaCha8 behind crypto/rand)", "Go scheduler random choices (patched runtime)"]


def add(prop, level, scenarios, real, stub=None, rule=None, assumptions=None):
    PROPS[prop] = {"level": level, "scenarios": scenarios, "rule": rule or RULE_GENERIC, "assumptions": assumptions or []}
    REAL[prop] = real
    STUB[prop] = COMMON_STUB + (stub or [])


add("C03", "exploration",
    [{"name": "transport-channel", "quick_s": 40, "thorough_s": 900}, {"name": "write-cut-short", "quick_s": 8, "thorough_s": 200}],
    real=["transport (Client, Server, Handle, SessionState, SlidingWindow, PQ handshakes)", "kravatte SANSE", "cyclist", "keys", "certs", "common.DeadlineChan"])

TEXT = {}
NOT_APPLICABLE = [
    {"property_id": "C12", "reason": "Kravatte-SANSE correctness is a pure function of (key, plaintext, associated data): no schedule, clock, fault, I/O or second party for a simulator to control; deciding it needs differential/property-based testing against an independent implementation, which is outside this technique (DESIGN.md 4, C12)"},
    {"property_id": "C13", "reason": "Cyclist conformance is a pure function of the call sequence and operands; no nondeterminism, fault or interleaving is involved, so deterministic simulation has nothing to decide (DESIGN.md 4, C13)"},
    {"property_id": "C18", "reason": "encoders/decoders are pure functions of the value or byte string; the only multi-party clause (what a principal approves is what the target receives) is decided inside C06, decoder robustness inside C11 (DESIGN.md 4, C18)"},
    {"property_id": "C20", "reason": "glob/host matching is a pure function of (pattern list, string); the only fault-reachable part (attacker-chosen server name reaching the matcher in the server receive loop) is covered by C10 (DESIGN.md 4, C20)"},
]


def text(pid, level_text, level_note, technique, design_ref):
    TEXT[pid] = {"level_text": level_text, "level_note": level_note, "technique": technique, "design_ref": design_ref}


TB = ("trusted base: patched Go 1.26.8 runtime + testing/synctest, the SimNet fault model and the reference models in /verif/sim; "
      "sampling of seeds, not enumeration")

text("C03",
     "seeded exploration of datagram-adversary schedules (drop/dup/reorder/bit-flip per region/truncate/extend/reflect/late replay/forged data and control packets from third and spoofed addresses) against real client+server sessions, with a multiset reference model for authentic at-most-once delivery, a byte-stream model for Write completeness on the fault-free configuration, an undisturbed-session probe after the storm and a wire scan for plaintext secrets",
     TB, "deterministic simulation with fault injection (seeded schedule search, reference-model oracle)", "DESIGN.md 4 C03")

add("C08", "exploration",
    [{"name": "tube-stream", "quick_s": 35, "thorough_s": 900}, {"name": "tube-reassembly", "quick_s": 8, "thorough_s": 200}],
    real=["tubes (Muxer, Reliable, sender, receiver, frames, priority queue)", "common.DeadlineChan", "tube-reassembly: the real tubes.receiver alone (overlay accessor), everything else stubbed"],
    stub=["transport session under the muxers in 5 of 6 runs (simulated MsgConn pair so that frame-level faults are exact); in 1 of 6 runs of tube-stream the muxers run on a REAL transport session (server Handle / Client after a real handshake), nothing stubbed but the UDP socket"])
text("C08",
     "seeded exploration of packet-fault schedules (loss up to 60 %, duplication, reordering by jitter and long delays, loss bursts, total and one-way outages from 0.1 s to 10 simulated minutes followed by recovery) under 1-3 reliable tubes with both directions active, write-size profiles from 1 byte to several windows; prefix oracle on every Read against the canonical written stream, end-of-stream position oracle at the end that stays open, bounded-liveness oracle (every written byte readable within 5 simulated minutes after the last fault); plus a component-level simulation of the reassembly core: the real receiver is fed seeded arrival schedules of 1-12 frames (+FIN) with reordering, duplicates and frames far outside or at the edge of the window, starting at frame numbers 1, around 2^31, across the 2^32 wrap and beyond 2^33, and after every arrival the assembled bytes must equal the in-order prefix of what arrived and the FIN must be processed exactly when its number is reached",
     TB + "; the liveness bound (5 min) is a harness parameter, not mirrored from the code", "deterministic simulation with fault injection (seeded fault-schedule search, prefix/EOF/bounded-liveness oracles)", "DESIGN.md 4 C08")

add("C10", "exploration",
    [{"name": "junk-datagrams", "quick_s": 40, "thorough_s": 900}],
    real=["transport (Server, Client, all PQ handshake readers, session message path)", "hopserver.NewVirtualHosts / VirtualHosts.Match", "pkg/glob", "certs parsing", "keys"],
    stub=["hopserver.NewHopServer's GetCertificate/GetCertList closures are reproduced in the harness around the real matcher (the constructor opens a real socket)"])
text("C10",
     "seeded exploration of attacker datagram sequences against a live server and live clients in 5 server configurations (single certificate, virtual hosts with and without fallback, hidden with one and with several certificates): random byte strings with biased lengths, truncations/extensions and single-field mutations of every valid message type captured from the run's own honest traffic, datagrams copying type and session id of live sessions with short or arbitrary remainder, and unauthenticated handshake prefixes produced by real client code with adversarial server names (empty, nil, glob metacharacters, 252 bytes, every and unknown name types) and right/wrong KEM keys, from third and spoofed addresses, interleaved with an honest handshake in flight; oracle: no panic in any goroutine (process-level), sessions established before still deliver probes both ways, a fresh honest handshake and probe succeed afterwards",
     TB + "; a panic anywhere in the process is attributed to the run that was executing", "deterministic simulation with fault injection (seeded adversarial-input and schedule search, liveness probes)", "DESIGN.md 4 C10")

add("C11", "exploration",
    [{"name": "byzantine-frames", "quick_s": 25, "thorough_s": 600}, {"name": "byzantine-bytes", "quick_s": 20, "thorough_s": 400}],
    real=["tubes (Muxer, Reliable, Unreliable, sender, receiver, frame decoding)", "userauth.GetInitMsg", "codex.GetCmd / HandleSize", "portforwarding.readPacket", "authgrants message readers", "common.ReadString"],
    stub=["transport session under the muxers (simulated MsgConn pair; Byzantine frames are injected as datagrams from the authenticated peer's address)"])
text("C11",
     "two seeded scenario families: (1) a Byzantine authenticated peer injects raw frames (every flag combination, any tube id except the unrelated tube, length fields inconsistent with the datagram incl. 65523/65524/65535, acknowledgement and frame numbers before/at/after anything sent and around 2^31/2^32, both header layouts, datagrams shorter than a header) while an unrelated reliable tube transfers data in both directions - oracle: no panic, the unrelated transfer completes intact, Muxer.Stop returns within 5 simulated minutes; (2) the peer opens a tube of each application type and writes random, truncated, mutated and extreme-length-prefix byte strings in random fragments into the real reader of that type (10 readers) then closes or vanishes - oracle: no panic, the reader returns within 10 simulated minutes after the stream ends (or when the local muxer stops), bytes allocated while it runs <= 8 MiB + 64 x bytes received",
     TB + "; allocation is measured with runtime.MemStats.TotalAlloc around the reader (single P, concurrent muxer goroutines included in the slack); workers run under RLIMIT_AS 10 GiB",
     "deterministic simulation with fault injection (Byzantine-peer input search, liveness and allocation oracles)", "DESIGN.md 4 C11")

add("C02", "fault_enumeration",
    [{"name": "tamper-sweep", "quick_s": 90, "thorough_s": 900, "quick_runs": 57344 * 2, "thorough_runs": 57344 * 12}],
    real=["transport (Client, Server, PQ discoverable and hidden handshakes, cookies, key derivation)", "cyclist", "kravatte", "keys (X25519, ML-KEM-512)", "certs"],
    rule=("the run index enumerates the single-fault space of one handshake: slot (4) x handshake message type (5 discoverable + 2 hidden) x byte position or truncation length 0..2047 "
          "(every message is shorter) x sweep. Slot 0: xor one byte with the sweep's mask (sweep 0: single bit 1<<(pos%8); 1: 0x80; 2: 0xff; 3: 0x01; 4+: seeded non-zero); slot 1: truncation to pos bytes "
          "(first sweep; odd later sweeps: the same truncation delivered right behind a full copy of the datagram from another address, for the discoverable client-to-server messages; even later sweeps: xor with a seeded mask); slot 2: replacement by the corresponding datagram of an independent handshake (other client, or an earlier attempt from the same "
          "address; 4 variants), other positions xor with a seeded mask; slot 3: the same mask on two neighbouring bytes. One sweep = 57344 runs and covers EVERY byte offset and "
          "EVERY truncation length of every message; positions beyond the message length are vacuous runs (still a completed handshake whose keys are compared). "
          "Non-trivial = the alteration was applied in flight and the receiving party's outcome was judged; distinct = distinct event-log hash."),
    assumptions=["quick tier: two complete sweeps (all offsets with 5 masks each incl. single bit, 0x80 and two seeded ones, all truncation lengths, 28 replacements, all neighbouring byte pairs); thorough: 12 sweeps with further mask families",
                 "substituting a hidden-mode request by another handshake's request makes the server complete the donor's handshake again (replay inside the 5 s freshness window); this is recorded as a probe and not judged, because the statement is about the handshake whose datagram was replaced"])
text("C02",
     "complete enumeration of single in-flight faults on the handshake: every byte offset (xor) and every truncation length of all 7 handshake message types of both modes, plus replacement by the corresponding datagram of an independent or earlier handshake; oracle: the party that received the altered datagram does not complete (client: Handshake() error; server: no connection published / no session established for it); for every handshake both sides completed: equal session id and directional keys (white-box accessor), directional keys distinct and non-zero, keys pairwise distinct across sessions of the run, first data packet decrypts",
     TB + "; masks are one per offset per sweep (not all 255); pairwise key distinctness is checked within a run, not across runs",
     "deterministic simulation with fault injection (exhaustive single-fault sweep over offsets and lengths via a man-in-the-middle on the simulated network)", "DESIGN.md 4 C02")

add("C01", "exploration",
    [{"name": "counterfeit-peer", "quick_s": 40, "thorough_s": 900}],
    real=["transport (Client, Server, both PQ handshake modes, certificate parse+policy evaluation)", "certs (issuing and verification)", "authkeys", "keys", "cyclist"],
    assumptions=["counterfeit peers are the real endpoint code configured with wrong material (valid certificate but another key; own key with certificate for another name / expired at the simulated time / not yet valid / intermediate-typed / untrusted root / self-signed; hidden-mode server without the KEM key); an adversary that deviates from the protocol code itself (omits an absorb) is not simulated - garbage in MAC/tag fields and transplanted messages are enumerated by the C02 sweep",
                 "ground truth is how the harness built the counterpart (possession, chain validity by construction, key listed), never the verdict of certs.VerifyLeaf"])
text("C01",
     "seeded exploration of counterfeit counterparts x handshake mode (discoverable / hidden) x direction x verification policy (client: store+name, store, skip; server: CA store, authorized keys, both, skip) x benign network reordering/duplication, several clients concurrently; certificates are issued inside the simulation so expiry is reached by letting simulated time pass; oracle: client Handshake()==nil only for an authentic server; a discoverable server offers to Accept, and any server delivers data through Handle.ReadMsg, only for an authentic client",
     TB, "deterministic simulation with fault injection (counterfeit-peer search against a construction-based ground truth)", "DESIGN.md 4 C01")

add("C14", "exploration",
    [{"name": "replay-window", "quick_s": 25, "thorough_s": 600}, {"name": "replay-insitu", "quick_s": 25, "thorough_s": 300}],
    real=["transport.SlidingWindow (Check/Mark)", "transport session receive path (check before decrypt, mark after successful open) in the in-situ scenario"],
    stub=["component scenario: everything but the SlidingWindow (a counting sender and a simulated link produce the arrival history)"],
    rule=("component scenario: one run = one arrival history of 2e3..2e5 counters produced by a simulated link (loss, duplication, reordering depth tuned to 64/448/512 boundaries, late arrivals, forward jumps up to 2^40, "
          "optionally near 2^62); every arrival is one oracle obligation (Check compared with the set model, Mark when accepted). In-situ scenario: one run = one real session with 200..1700 messages under reorder/dup/delay/late-replay faults and forged packets "
          "carrying the counters the client is about to use. Non-trivial = at least one duplicate/late/jump/forged event fired and obligations were evaluated; distinct = distinct event-log hash."))
text("C14",
     "seeded histories against a set-based reference model whose window size (448) is taken from the property statement: the real SlidingWindow is driven operation by operation (Check, then Mark when accepted) and must agree with the model on every arrival; in situ, with reorder/dup/delay faults only, the number and identity of messages delivered to the application must equal the model's accepted deliveries and a forged packet with a fresh counter must not consume that counter",
     TB, "deterministic simulation with fault injection (component simulation against an executable set model + in-situ refinement check)", "DESIGN.md 4 C14")

add("C15", "exploration",
    [{"name": "roaming", "quick_s": 35, "thorough_s": 900}],
    real=["transport (Server/Client handleSessionMessage address update, Handle.send destination)", "transport.SlidingWindow", "kravatte SANSE"])
text("C15",
     "step-mode simulation (every delivery followed by quiescence) of an established session whose client or server address changes at drawn instants while an attacker at other addresses sends forged packets with copied headers, bit-flipped copies and verbatim replays of genuine packets; reference model: per endpoint a peer variable that moves to the source address of a delivery exactly when that delivery is an unmodified copy of a real transmission of the real peer for this session AND the C14 set model accepts its counter; oracle: every datagram an endpoint emits for the session is addressed to the model's peer; liveness: the roaming endpoint keeps its session (probe both ways) whenever one side still knows the other's current address",
     TB + "; a transmission drained in the very step in which the model moved may still carry the previous peer (emitted just before the delivery was processed)",
     "deterministic simulation with fault injection (step-mode refinement against a peer-address model)", "DESIGN.md 4 C15")

add("C19", "exploration",
    [{"name": "cookie-stateless", "quick_s": 30, "thorough_s": 600}, {"name": "hidden-silence", "quick_s": 25, "thorough_s": 600}],
    real=["transport.Server (ClientHello / ClientAck / hidden request paths, cookie seal/open, cookie key rotation, handshake and session tables)", "transport.Client (as traffic source)", "kravatte", "keys"],
    stub=["the attacker's ClientHello/ClientAck are produced by small protocol-following adversary functions built from the package's own message writers (hooks/transport/verif_export.go)"])
text("C19",
     "step-mode simulation: (discoverable) floods of valid ClientHellos from many addresses - tables and goroutine count must not grow after any of them; ClientAcks that are cryptographically well-formed for the transcript the server will rebuild but carry a cookie minted for another IP, another port, another client KEM key, before a cookie-key rotation (clock advanced past the 2-minute ticker), by a previous server instance (restart) or with altered bytes - a ServerAuth is attributed to the delivery that caused it and must only follow a cookie this instance minted in the current key epoch for exactly that source address and client key (the harness saw every ServerHello leave); a control acknowledgement (same key, same address) must be answered, which validates the adversary. (hidden) every arrival is classified by construction as fresh genuine request or other (discoverable messages, wrong KEM key, flipped/truncated/extended genuine requests, late replays, junk, unknown-session packets, fake requests); any datagram the server emits is attributed to the preceding delivery and must answer a fresh genuine request",
     TB + "; replays inside the freshness window and deliveries 4..7 s old are not judged (1-second timestamp granularity)",
     "deterministic simulation with fault injection (step-mode attribution of server emissions, construction-based ground truth)", "DESIGN.md 4 C19")

add("C16", "exploration",
    [{"name": "tube-shutdown", "quick_s": 40, "thorough_s": 900}, {"name": "bulk-stop", "quick_s": 20, "thorough_s": 400}, {"name": "stop-many-tubes", "quick_s": 8, "thorough_s": 150}],
    real=["tubes (Muxer, Reliable, Unreliable, sender, receiver): yield-instrumented copies of the current sources", "common.DeadlineChan"],
    stub=["transport session under the muxers in 7 of 8 runs (simulated MsgConn pair); in 1 of 8 runs the muxers run on a real transport session"])
text("C16",
     "seeded concurrent programs (Write / Read with deadline / Close / WaitForClose per tube end, 1-4 reliable and unreliable tubes opened from both sides, Muxer.Stop on either side at drawn instants, also twice and racing Create/Accept) over a network that is healthy, lossy, dead from the start, dying at a drawn instant, one-way dead or lossy-then-dead, with seeded yields (Gosched / micro- and millisecond stalls, one in twelve a stall of 20 ms to 2 s; per run either 1-6 random sites or every site of one function) armed at instrumented lock/channel/atomic/timer sites of package tubes; oracle: every Close and every Stop returns within 30 simulated seconds, WaitForClose completes within 90 s once both ends closed on a live network or the muxer was stopped, after Stop every tube is closed and Write fails, Read never returns bytes that were not written, after closure Read drains and reports end-of-stream, no panic, and no goroutine of the system is left when the bubble ends (synctest deadlock report). Second scenario (bulk-stop): a bulk transfer of 0.2-1.7 MB in writes of 300 B to 300 kB (far more frames than the window) is interrupted after 10-2500 ms by Stop of either or both muxers, Close then Stop, or the death of the network, with yields (incl. stalls of up to 2 s) concentrated in the sender / close / stop functions; oracle: no panic, every Stop and Close returns, Write and Read come back after the stop, no goroutine left",
     TB + "; interleavings are explored on one P at instrumented synchronisation statements (sequentially consistent); Write/Read blocking on a tube whose initiation never completes is outside the statement and not judged; on a dead network WaitForClose is only required to return once Muxer.Stop is called",
     "deterministic simulation with fault injection (seeded schedule perturbation at instrumented yield points + fault schedules, bounded-liveness and leak oracles)", "DESIGN.md 4 C16")

add("C17", "exploration",
    [{"name": "deadline-queue", "quick_s": 12, "thorough_s": 300},
     {"name": "deadline-queue", "quick_s": 12, "thorough_s": 300, "race": True},
     {"name": "transport-concurrency", "quick_s": 15, "thorough_s": 400},
     {"name": "transport-concurrency", "quick_s": 25, "thorough_s": 600, "race": True}],
    real=["common.DeadlineChan / Deadline (yield-instrumented)", "transport.Client, Handle, Server, SessionState (yield-instrumented)", "kravatte, cyclist, keys"],
    rule=("one evaluation = one small concurrent program (2-6 goroutines, <= 4 operations each, drawn completely before any worker starts) executed in one bubble with seeded yields armed at instrumented synchronisation statements of packages common and transport; "
          "the same programs run with and without the race detector. Non-trivial = at least one armed yield or fault fired and the history was checked; distinct = distinct event-log hash (the log contains the complete invoke/return history)."))
text("C17",
     "seeded concurrent programs over (a) common.DeadlineChan (Send/Recv/SetDeadline/Cancel/Close, capacities 0/1/3), (b) transport.Client against a live or a silent server (Handshake/Read/ReadMsg/Write/WriteMsg/Set*Deadline/Close), (c) a server Handle, (d) a Server (Serve/AcceptTimeout/Close racing incoming handshakes), in both handshake modes, with and without the race detector (halt_on_error); invoke/return events are recorded lock-free with the simulator's event sequence number and checked with porcupine against a FIFO-with-close model (values, order, at-most-once, end-of-stream only after close and after everything queued before it; timeouts permitted at any time); further oracles: every call returns within 30 simulated seconds of the releasing Close, a handshake against a silent server returns by its own HSTimeout, all Close callers get the same result, Write fails after Close, only end-of-stream/timeout class errors, no goroutine left at the end",
     TB + "; the history recorder and the yield hook are norace functions over preallocated arrays, the simulated network is an actor, so the harness adds no happens-before edge between goroutines of the system; porcupine Unknown (timeout) is inconclusive and never reported",
     "deterministic simulation with fault injection (seeded schedule perturbation + race detector + porcupine linearizability check of recorded histories)", "DESIGN.md 4 C17")

add("C09", "exploration",
    [{"name": "tube-isolation", "quick_s": 40, "thorough_s": 900}, {"name": "app-session-tubes", "quick_s": 12, "thorough_s": 300},
     {"name": "accept-backlog", "quick_s": 8, "thorough_s": 200}],
    real=["tubes (Muxer demultiplexing, id choice, reaping, Reliable, Unreliable, frames)",
          "app-session-tubes: hopclient.HopClient (NewHopClient, DialExternalAuthenticator, muxer construction, user authorization, HandleTubes), hopserver session code (newSession, start, newAuthGrantTube), transport client/server, userauth"],
    stub=["tube-isolation: transport session under the muxers in 7 of 8 runs (simulated MsgConn pair); real transport session in 1 of 8",
          "app-session-tubes: the UDP socket of transport.DialWithDialer (VerifDial seam inserted by the build step), the server's delegate-proxy unix socket (not started), authorized_keys file system (in-memory fs.FS)"])
text("C09",
     "seeded concurrent open/write/close/reopen programs from both muxer roles (several opener workers per side, reliable and unreliable tubes of drawn types, far more opens than live tubes so identifiers are reused) under delay, reordering, duplication, loss and late-packet faults (long delays and verbatim late replays of up to several seconds); every tube INSTANCE has a unique tag and every 64-byte stream cell / every unreliable message carries tag, offset, id, reliability and type; oracle: everything an instance reads comes from exactly one instance on the other side with the same id and reliability (violations are attributed: cross-id, cross-reliability, stale-after-reuse/{reliable,unreliable}, own-data-echoed), Create returns identifiers of the muxer's parity that are not in use, accepted tubes have the peer's parity, Accept never returns more tubes of (id, reliability) than the peer opened (ghost), unreliable reads return exactly one written message (length, header and tail pattern). Second scenario (app-session-tubes): the real hop client logs in to the real hop server session code over the simulated network, then both applications open reliable tubes towards each other at (nearly) the same moment for several rounds (the server through its own newAuthGrantTube, the client as its window-size/exec code does), with loss, duplication, jitter and muxer yields; oracle: tubes alive at the same time in one session have distinct (reliability, id) identities whichever side opened them. Third scenario (accept-backlog): one side opens 20..128 reliable and 0..100 unreliable tubes (around and beyond the muxer's accept queue of 128) before the other side calls Accept for the first time, under light loss/duplication; oracle: every tube whose opener saw it come up is returned by Accept exactly once with its identifier, reliability and type",
     TB, "deterministic simulation with fault injection (seeded reuse histories and late-packet schedules, instance-tag attribution oracle)", "DESIGN.md 4 C09")

add("C04", "exploration",
    [{"name": "pki-lifecycle", "quick_s": 35, "thorough_s": 900}],
    real=["certs.Store.VerifyLeaf", "certs.VerifyParent", "certs.Certificate.ReadFrom/Marshal", "certs issuing functions (SelfSignRoot, IssueIntermediate, IssueLeafWithValidity, internal issue via overlay hook)", "keys signatures"],
    stub=["nothing but the clock: certificates are issued and verified with CurrentTime zero, i.e. the simulated clock"],
    assumptions=["scope: forests, stores, names and mutations are seeded generation; the clock walk visits every validity boundary (IssuedAt-1s, IssuedAt, ExpiresAt-1s, ExpiresAt, each also with a sub-second offset) of every certificate of the run in order; nothing is enumerated exhaustively",
                 "'signed by' in the model is ground truth from the issuing history (which key signed which bytes, bytes unmodified), the fingerprint is recomputed with an independent SHA3 and fields are decoded by the harness's own decoder"])
text("C04",
     "a PKI living in simulated time: 1-3 roots, their intermediates and leaves (names of all id types incl. equal labels with different types, validities from seconds to beyond the parent's) and type pairings the public API refuses (intermediate under intermediate, leaf-typed signer, ...) are issued at drawn simulated instants; relying parties have drawn store subsets (roots, stored intermediates, wrong-typed and mutated anchors), presented-intermediate choices (right, wrong, none) and requested names (carried, same label other type, other, none); certificates reach the verifier as bytes with single-bit flips, single-field forgeries (type, parent fingerprint, name type, validity bounds, key), truncation and extension; the clock walks forward through every validity boundary; every VerifyLeaf / VerifyParent verdict is compared in BOTH directions with an executable reference model of the property's iff",
     TB, "deterministic simulation with fault injection (simulated clock walk + in-transit corruption against an executable reference model)", "DESIGN.md 4 C04")

APP_REAL = ["hopserver (NewHopServerExt, newSession via overlay hook, checkAuthorization, AuthorizeKey, AuthorizeKeyAuthGrant, AddAuthGrant, checkCmd, checkIntent, handleAgc)",
            "core.ParseAuthorizedKeys", "authgrants (grant map, messages, principal, target)", "userauth", "codex (request encoding/decoding)", "tubes", "transport", "config.UserDirectoryFor"]
APP_STUB = ["file system (faulty fs.FS installed through an overlay hook; SetFSystem only accepts fstest.MapFS)", "OS user database (thunks.LookupUser)", "process creation (thunks.StartCmd refuses; PATH empty)",
            "HopServer.Serve and the delegate-proxy unix socket (accepted handles are fed to the real newSession)", "the interactive hopclient (scripted clients use the real transport, tubes, userauth, codex and authgrants encoders)"]

add("C05", "exploration",
    [{"name": "login", "quick_s": 35, "thorough_s": 900}],
    real=APP_REAL, stub=APP_STUB)
text("C05",
     "a real HopServer over a real transport server on the simulated network; per run three users with drawn key sets, authorized-keys files assembled from valid entries, other users' keys, comments, blank lines, garbage, wrong prefixes, truncated base64, wrong lengths, over-long lines, CRLF, in any order, served by a faulty fs.FS (missing file, EACCES/EIO on open, read error after k bytes, one-byte reads, torn and empty content); scripted clients log in concurrently as drawn users (also unknown and empty user names) with drawn keys while grants are added concurrently, with grants enabled or disabled, and the two authorisation entry points are also called directly; reference model: allowed(user,key) iff key is the decoded value of a well-formed line of the STORED content of that user's file, or a grant addition for exactly (user,key) was invoked before the confirmation and not yet used by another login; only the 'only if' direction is judged; grant conservation (added = handed out + still stored) under concurrent AddAuthGrant / AuthorizeKeyAuthGrant",
     TB + "; which grant additions a login consumed is not observable, so each grant-based login is matched to its own addition (sound lower bound)",
     "deterministic simulation with fault injection (faulty file system + concurrent logins against a reference model of listed keys and grants)", "DESIGN.md 4 C05")

add("C06", "exploration",
    [{"name": "principal", "quick_s": 30, "thorough_s": 600}],
    real=["authgrants.StartPrincipalInstance (principal state machine)", "authgrants.StartTargetInstance", "authgrants message encoders/decoders", "common.WriteString/ReadString", "certs (delegate certificate encoding)"],
    stub=["the three parties are joined by in-memory buffered stream connections with a fault layer (fragmentation, stalls, death at a drawn byte) instead of tubes over a hop session", "the approval callback, the target-setup function and (in half of the runs) the target are scripted"])
text("C06",
     "three-party simulation: a scripted delegate sends 1-5 well-formed intent requests (shell and command grants, fields at the framing limits 0/1/255, same or different target), the REAL principal instance runs with a scripted approval callback (approve/deny per request, short and 300-byte reasons) and a hopclient-like target-setup function (verification callback inside connection establishment; failure before it, after it, or a connection that dies at a drawn byte), and the target is the REAL target instance with scripted policy/store results or a scripted one (confirm, deny, wrong message type, garbage, close); streams are fragmented and stalled; oracle over the recorded history: every intent that reaches the target connection equals field for field one the approval callback accepted earlier and whose approval was not already used; the delegate gets exactly one well-framed answer per request (a quiet period after the first answer exposes a second one); a confirmation only if the target accepted and stored that intent",
     TB + "; a target that leaves a message unfinished and stalls keeps the request legitimately in flight and is not simulated (no time bound is stated)",
     "deterministic simulation with fault injection (scripted-counterpart history search, approval-log oracle)", "DESIGN.md 4 C06")

add("C07", "exploration",
    [{"name": "delegate-session", "quick_s": 35, "thorough_s": 900}],
    real=APP_REAL + ["portforwarding.StartPFServer (refusal and remote-forward paths)"], stub=APP_STUB + ["an exec request counts as started when thunks.LookupUser is reached from startCodex (the stub recognises the caller by its stack and answers 'no such user', so nothing is ever run); remote port-forward requests name a unix socket in a directory that does not exist"])
text("C07",
     "a real HopServer with authorization grants enabled and transport-level admission by the grant key set; 1-5 grants (shell, command with drawn texts, local and remote port-forward; start times in the past, now, in 20 s / 90 s / 1 h; lifetimes 30 s / 5 min / 2 h; two users, two delegate keys) are installed with the real AddAuthGrant, more are added between sessions; scripted delegates connect with a granted or a foreign key, log in, and issue drawn action requests separated by clock jumps of seconds, minutes and hours that straddle start and expiry: exec-tube pairs (granted text, text differing by one byte, prefix, other case, other commands, empty, shell flag on/off, repeats), remote port-forward control requests, authorization-grant tubes carrying a further intent; reference model: multiset of grants moved to the session at login; the set of actions the server STARTED must have an injective assignment to unused grants of that session with matching type, identical command text and start <= t < expiry (maximum matching, so the model is never stricter than necessary); login itself needs an unconsumed grant for exactly (user, key)",
     TB + "; a shell grant is taken to cover any request with the shell flag (that is what a shell gives)",
     "deterministic simulation with fault injection (clock jumps + request histories against a grant-multiset reference model)", "DESIGN.md 4 C07")

# ---------------------------------------------------------------------------------------------------------------
# what the scenarios gained during the seeded-change waves (DESIGN.md section 11); appended to the texts above
ADDED = {
    "C01": "in half of the impostor-client runs the server is built by the REAL hopserver.NewHopServer, so the verification policy is what the constructor derives from the configuration (CA certificates, enable/disable switches); impostors also tamper with the proof fields of their own final handshake messages (left out, shortened, zeroed, inverted, halves swapped, two bytes under one mask), present the expected label under another name type, use keys that were listed and removed again, and make preparatory attempts (own root in the intermediate slot, ...) against the server's long-lived verifier before the real attempt; client pinning policy (skip verification + pinned key); further goroutines that ask for the handshake's outcome at any time while the goroutine running it may be held inside a socket deadline call; an earlier handshake on the same server before the impostors' certificates run out (state a long-lived server keeps between handshakes)",
    "C02": "two complete sweeps in the quick tier: per offset the masks single-bit, 0x80 and two seeded ones, every neighbouring byte pair under one mask, every truncation length alone and again right behind a full copy of the datagram from another address, 28 replacements; the altered datagram delivered 1-8 times; cookie swap: the ServerHello the server issued to ANOTHER address in answer to a copy of the victim's ClientHello (IPv4/IPv6, same/other port, same host other port)",
    "C03": "type-byte substitution on genuine packets, cross-injection of genuine packets between sessions and directions, late network duplicates of the handshake datagrams with the session outliving the server's handshake timeout; scenario write-cut-short: a multi-packet Write cut short by a socket error, a concurrent local Close or a peer Close on a loss-free network, the reported count judged against the payload bytes the socket transmitted during the call and against what the peer read; handshakes bounded by an absolute deadline that the session outlives; message readers that start with a small buffer and retry larger on ErrBufOverflow",
    "C04": "un-nested validity windows and forged intermediates naming a trusted root (signed with real keys through an overlay hook on the internal issuing routine), explicit verification times incl. past instants, names built through the public constructors, long-lived stores shared by many queries, stores loaded from PEM bundles, every question asked again on the same store; look-alike names (other case, letters that Unicode folding maps onto ASCII ones, trailing dot or blank)",
    "C05": "file edits between logins (same-size key replacement with preserved / same-second / later modification time; the simulated file system answers Stat), embedded key texts, run-time toggling of EnableAuthgrants, a slow file system (read and close take simulated time) with dense concurrent logins; a server without any key set (what NewHopServer derives for skip-verify + grants): a refused grant must admit nobody",
    "C06": "pipelined delegate requests (several intents in flight on one connection), a scripted target answering each request 1-65 s late, stream pipes with read deadlines on the simulated clock; in a third of the runs the approval hook runs inside a real transport handshake with a real transport server standing for the target (VerifyConfig.AddVerifyCallback under store+name / store / InsecureSkipVerify); denial reasons that are not ASCII (<= 255 characters, > 255 bytes)",
    "C07": "forbidden tubes opened between the two tubes of an exec pair, commands sent seconds to hours after their tubes were opened, the same exec request twice at the same moment, a slow user lookup, overlapping logins with one delegate key under yields; the started command (text, shell flag, time) is taken from the server's own log entry; oracle on the transport layer's trusted-key set after the last grant of a key was consumed",
    "C08": "in a sixth of the runs the muxers run on a real transport session; sequence space of fresh tubes moved close to and across the 32-bit frame-number wrap; schedule perturbation in the tube code and a socket that holds writers up (bounded in time like the other faults); reassembly core with duplicate floods parked behind a gap",
    "C09": "yields in the muxer, messages near and over the size limits (the simulated endpoints enforce the limits of what they stand for), a muxer that stops by itself is a violation, real transport under the muxers in an eighth of the runs; applications that read an ended reliable tube again later (after it was reaped and other tubes carry data)",
    "C10": "the multi-host server is built by the REAL hopserver.NewHopServer in 3 of 4 runs (VerifListen seam inserted by the build step); the attacker's own, correctly authenticated handshake messages with altered length prefixes and with certificate blobs of its own making; handshakes abandoned after the ClientAck followed later by an honest client from the same address; host patterns with literal text on both sides of the wildcard and names on their edges; sources the server cannot reach (its answers fail with an error); a session closed in the middle of the junk; maximum-size datagrams (64503-65507 bytes) with a live session header; a second handshake from an address whose first one is still pending, with a name the server may be unable to answer",
    "C11": "the honest side closes every second Byzantine tube; a well-formed flood (unread unreliable tube, 990-2500 datagrams, FIN); the honest background transfer runs under loss, socket stalls and schedule perturbation; identifier squatting (the peer opens tubes under every identifier of the honest side's parity, then the honest application opens one); a scripted closing exchange in every order on a tube the honest side closes at once",
    "C14": "send counters moved close to and across 2^32, 2^31, 2^48, 2^63 (the state a long-lived session reaches by itself); empty messages",
    "C15": "truncated copies and port-only / host-only moves, receive queues of 1-4 packets with a slow application, several writers per connection with blocking socket writes; counter gaps (a direction's send counter skips up to 600 values) followed by replays of recent packets; echoing applications and reschedule-only yields in the session paths with a causal oracle: once the application was handed the message of the packet that moved the peer, nothing sealed afterwards may go to the previous address",
    "C16": "large writes, real transport under the muxers in an eighth of the runs, at closure the bytes a tube holds for its reader must all be returned; scenario stop-many-tubes: a muxer whose identifier space is (nearly) used up (100-140 opens of one kind, the ones beyond 128 must be refused) is stopped, in part of the runs while opens are still attempted; a loop that neither ends nor blocks is reported as livelock@function (iteration counter in every loop body of the instrumented copies)",
    "C17": "a timeout returned by a queue operation must be justified by a deadline that was in force during the call and had been reached on the simulated clock (deadlines set and taken back before they are reached); short-buffer reads with a byte-level connection model, long pauses (operations meeting a connection whose handshake failed), handshakes bounded by deadline only or by both, a server that falls silent after its first answer, socket Close reporting an error, harness Close calls bounded and judged",
    "C19": "multi-host servers built by the real hopserver.NewHopServer, hidden mode configured with names that match no host block, IPv6 client addresses, acknowledgements from the same address while its handshake is pending (altered / zero / foreign-key cookie, random bytes), acknowledgement under a KEM key differing from the cookie's in a few bytes",
}
for _p, _t in ADDED.items():
    TEXT[_p]["level_text"] += ". Added during the seeded-change waves: " + _t
