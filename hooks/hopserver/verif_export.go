//go:build verif

package hopserver

import (
	"io/fs"
	"net"

	"hop.computer/hop/authgrants"
	"hop.computer/hop/authkeys"
	"hop.computer/hop/keys"
	"hop.computer/hop/transport"
	"hop.computer/hop/tubes"
)

// Hooks for the simulation harness (file added by -overlay; not in the repository).

// VerifNewSession runs the real session code for an accepted handle (what
// HopServer.Serve does for every connection; Serve itself also starts the
// delegate-proxy unix socket, which the simulation does not have).
func (s *HopServer) VerifNewSession(h *transport.Handle) { s.newSession(h) }

// VerifSetFS installs an arbitrary fs.FS (SetFSystem only accepts fstest.MapFS).
func (s *HopServer) VerifSetFS(f fs.FS) { s.fsystem = f }

// VerifGrantCount returns the number of stored grants for (user, key).
func (s *HopServer) VerifGrantCount(user string, key keys.DHPublicKey) int {
	return s.agMap.VerifCount(user, key)
}

// VerifAuthGrantTubeOpeners returns, for every live session, the function the server itself
// uses to open an authorization-grant tube towards that session's client.
func (s *HopServer) VerifAuthGrantTubeOpeners() []func() (*tubes.Reliable, error) {
	s.sessionLock.Lock()
	defer s.sessionLock.Unlock()
	var out []func() (*tubes.Reliable, error)
	for _, sess := range s.sessions {
		out = append(out, sess.newAuthGrantTube)
	}
	return out
}

// VerifListen, when set, replaces the socket NewHopServer opens (the build step of /verif rewrites the two
// socket lines of the overlay copy to go through verifListen).
var VerifListen func(addr string) (transport.UDPLike, error)

func verifListen(addr string) (any, error) {
	if VerifListen != nil {
		return VerifListen(addr)
	}
	return net.ListenPacket("udp", addr)
}

// VerifKeyStore returns the set of trusted keys the server handed to its transport layer (nil if the
// configuration enables neither authorized keys nor authorization grants).
func (s *HopServer) VerifKeyStore() *authkeys.SyncAuthKeySet { return s.keyStore }

var _ = authgrants.Shell
