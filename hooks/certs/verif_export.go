//go:build verif

package certs

import "time"

// VerifIssue exposes the internal issuing routine so that the simulation can
// build chains with arbitrary type pairings (an intermediate issued by an
// intermediate, a leaf issued by a root, ...) - material an attacker who holds
// a CA key could produce.  File added by -overlay; not part of the repository.
func VerifIssue(parent *Certificate, child *Identity, t CertificateType, at time.Time, d time.Duration) (*Certificate, error) {
	return issue(parent, child, t, at, d)
}

// VerifSetKey attaches a signing key to a certificate of any type.
func VerifSetKey(c *Certificate, private *[KeyLen]byte) { c.privateKey = private }
