//go:build verif

package tubes

// VerifState returns the lifecycle state of a tube as a string (white-box
// accessor for the simulation harness; file added by -overlay).
func VerifState(t Tube) string {
	names := map[state]string{created: "created", initiated: "initiated", closeWait: "closeWait", lastAck: "lastAck",
		finWait1: "finWait1", finWait2: "finWait2", closing: "closing", closed: "closed"}
	switch v := t.(type) {
	case *Reliable:
		if !v.l.TryLock() {
			return "locked"
		}
		defer v.l.Unlock()
		return names[v.tubeState]
	case *Unreliable:
		if s, ok := v.state.Load().(state); ok {
			return names[s]
		}
	}
	return "?"
}
