package sim

import (
	"bytes"
	"encoding/binary"
	"fmt"
	"io"
	"net"
	"runtime"
	"time"

	"hop.computer/hop/authgrants"
	"hop.computer/hop/certs"
	"hop.computer/hop/codex"
	"hop.computer/hop/common"
	"hop.computer/hop/portforwarding"
	"hop.computer/hop/tubes"
	"hop.computer/hop/userauth"
)

// C11 — no peer-supplied frame or protocol message can crash or wedge the process.

func init() {
	Register(&Scenario{Name: "byzantine-frames", Property: "C11", Fn: scByzFrames, Yields: true})
	Register(&Scenario{Name: "byzantine-bytes", Property: "C11", Fn: scByzBytes})
}

func pickU32(r *Run, key string, near uint32) uint32 {
	switch r.Intn(key, 10) {
	case 0:
		return 0
	case 1:
		return 1
	case 2:
		return near
	case 3:
		return uint32(1 + r.Intn(key, 6))
	case 4:
		return near + 1000 + uint32(r.Intn(key, 100000))
	case 5:
		return 1<<31 - 1 + uint32(r.Intn(key, 3))
	case 6:
		return 0xffffffff - uint32(r.Intn(key, 3))
	case 7:
		return near - uint32(r.Intn(key, 5))
	}
	return uint32(r.U64(key))
}

// rawFrame builds one Byzantine frame (header layout of tubes/frame.go).
func rawFrame(r *Run, key string, bgID byte, near uint32) []byte {
	if r.Intn(key, 25) == 0 { // shorter than a header
		return r.Bytes(key, r.Intn(key, 12))
	}
	dl := 0
	switch r.Intn(key, 8) {
	case 0:
		dl = 1 + r.Intn(key, 100)
	case 1:
		dl = 32768
	case 2:
		dl = 40000
	case 3:
		dl = 1 + r.Intn(key, 2000)
	}
	b := make([]byte, 12+dl)
	copy(b[12:], r.Bytes(key, min(dl, 64)))
	flags := byte(r.U64(key)) & 0x3f
	if r.Intn(key, 10) == 0 {
		flags |= byte(r.U64(key)) & 0xc0
	}
	var id byte
	switch r.Intn(key, 6) {
	case 0:
		id = bgID
	case 1:
		id = bgID ^ 1
	case 2:
		id = byte(2 + r.Intn(key, 6))
	case 3:
		id = 0xff - byte(r.Intn(key, 2))
	default:
		id = byte(r.U64(key))
	}
	if id == bgID {
		flags &^= 1 << 2 // never the (reliable, bgID) tube: that one is the unrelated tube
	}
	b[0], b[1] = id, flags
	var claimed int
	switch r.Intn(key, 9) {
	case 0:
		claimed = 0
	case 1:
		claimed = dl + 1
	case 2:
		claimed = dl - 1
	case 3:
		claimed = 65523
	case 4:
		claimed = 65524
	case 5:
		claimed = 65535
	case 6:
		claimed = int(r.U64(key) & 0xffff)
	default:
		claimed = dl
	}
	if claimed < 0 {
		claimed = 0
	}
	binary.BigEndian.PutUint16(b[2:4], uint16(claimed))
	if flags&3 != 0 && r.Intn(key, 2) == 0 { // initiate-frame layout
		b[4] = byte(r.U64(key))
		b[5] = 0
		binary.BigEndian.PutUint32(b[6:10], pickU32(r, key, 0))
	} else {
		binary.BigEndian.PutUint32(b[4:8], pickU32(r, key, near))
		binary.BigEndian.PutUint32(b[8:12], pickU32(r, key, near))
	}
	return b
}

func scByzFrames(r *Run) {
	n := NewNet(r)
	defer n.Stop()
	n.Quiet = true
	n.Describe = FrameDesc
	n.Cfg.Latency = time.Duration(1+r.Intn("cfg", 20)) * time.Millisecond
	mp := NewMuxPair(r, n, 0)
	// the honest traffic runs under ordinary stress in part of the runs: some loss, a socket that holds writers up,
	// schedule perturbation in the tube code (retransmission rounds and acknowledgements interleave with the
	// Byzantine input)
	if r.Intn("stress", 3) == 0 {
		n.Cfg.PDrop = r.Float("stress") * 0.25
		n.Cfg.Jitter = time.Duration(r.Intn("stress", 30)) * time.Millisecond
	}
	if r.Intn("stress", 3) == 0 {
		fns := []string{"tubes.(*Reliable).send", "tubes.(*Reliable)", "tubes.(*sender)", "tubes.(*Muxer)", "tubes."}
		r.ArmYields([]string{fns[r.Intn("stress", len(fns))]}, 1+r.Intn("stress", 6), 1+r.Intn("stress", 60), []float64{0.02, 0.1, 0.5}[r.Intn("stress", 3)])
		r.YieldsOn(true)
	}
	if r.Intn("stress", 4) == 0 {
		pStall := 0.02 + 0.2*r.Float("stress")
		for _, ep := range []*Endpoint{mp.EA, mp.EB} {
			ep := ep
			ep.WriteStall = func() time.Duration {
				if !r.Fault("socket-write-stall", ep.Name, pStall) {
					return 0
				}
				return time.Duration(1+r.Intn("stall:"+ep.Name, 100)) * time.Millisecond
			}
		}
	}
	honest, byz := mp.A, mp.B
	honestAddr, byzAddr := mp.AddrA, mp.AddrB
	if r.Intn("cfg", 2) == 0 { // the honest side may also be the client-role muxer
		honest, byz = mp.B, mp.A
		honestAddr, byzAddr = mp.AddrB, mp.AddrA
	}
	// (a tube the application never gets round to reading: see the flood below)
	floodID := byte(0xF0)
	if byz == mp.B {
		floodID |= 1 // the peer's identifiers have its parity
	}
	// (a tube on which the peer plays a scripted closing exchange, see below)
	scriptID := floodID - 0x10
	scriptCloseAfter := time.Duration(r.Intn("script", 40)) * time.Millisecond
	// honest accept loop: every offered tube is read until it ends
	bgAccepted := make(chan tubes.Tube, 1)
	first := true
	accN := 0
	r.Go(func() {
		for {
			t, err := honest.Accept()
			if err != nil {
				return
			}
			if first {
				first = false
				bgAccepted <- t
				continue
			}
			r.Probe("byzantine-tube-accepted")
			if !t.IsReliable() && t.GetID() == floodID {
				r.Probe("flooded-tube-accepted-and-left-unread")
				continue
			}
			if t.IsReliable() && t.GetID() == scriptID {
				// the tube of the scripted closing exchange: read by the application and closed at once
				r.Probe("scripted-tube-accepted")
				r.Go(func() {
					buf := make([]byte, 4096)
					for {
						if _, err := t.Read(buf); err != nil {
							return
						}
					}
				})
				r.Go(func() {
					time.Sleep(scriptCloseAfter)
					WithTimeout(r, 30*time.Second, func() { t.Close() })
				})
				continue
			}
			r.Go(func() {
				buf := make([]byte, 4096)
				for {
					if _, err := t.Read(buf); err != nil {
						return
					}
				}
			})
			// like a server that does not know the tube type, the honest side closes some of them
			// (its FIN is then queued: acknowledgement numbers around it are another Byzantine input)
			if accN++; accN%2 == 0 {
				r.Go(func() {
					time.Sleep(time.Duration(20+int(accN)*7%200) * time.Millisecond)
					WithTimeout(r, 30*time.Second, func() { t.Close() })
				})
			}
		}
	})
	r.Go(func() {
		for {
			if _, err := byz.Accept(); err != nil {
				return
			}
		}
	})
	// the unrelated tube: opened by the (otherwise well-behaved) peer, used in both directions
	bgB, err := byz.CreateReliableTube(common.ExecTube)
	if err != nil {
		r.Violate("C11/nofault/create-failed", "CreateReliableTube: %v", err)
		return
	}
	var bgA tubes.Tube
	select {
	case bgA = <-bgAccepted:
	case <-time.After(10 * time.Second):
		r.Violate("C11/nofault/accept-failed", "background tube was not offered to Accept on a faithful network")
		return
	}
	bgID := bgB.GetID()
	total := int64(20000 + r.Intn("cfg", 400000))
	salt := r.U64("salt")
	done := make(chan string, 2)
	xfer := func(name string, w io.Writer, rd io.Reader) {
		r.Go(func() {
			off := int64(0)
			for off < total {
				sz := int64(1 + r.Intn(name, 20000))
				if sz > total-off {
					sz = total - off
				}
				b := make([]byte, sz)
				streamFill(b, salt, off)
				if _, err := w.Write(b); err != nil {
					return
				}
				off += sz
				time.Sleep(time.Duration(r.Intn(name, 40)) * time.Millisecond)
			}
		})
		r.Go(func() {
			buf := make([]byte, 30000)
			off := int64(0)
			for off < total {
				k, err := rd.Read(buf)
				if k > 0 {
					if bad := streamCheck(buf[:k], salt, off); bad >= 0 {
						done <- fmt.Sprintf("%s: bytes at offset %d are not what was written", name, off+int64(bad))
						return
					}
					off += int64(k)
				}
				if err != nil {
					done <- fmt.Sprintf("%s: read failed at offset %d of %d: %v", name, off, total, err)
					return
				}
			}
			done <- ""
		})
	}
	xfer("bg-to-honest", bgB, bgA)
	xfer("bg-to-peer", bgA, bgB)

	// Byzantine frames, written straight onto the connection of the authenticated peer
	nFrames := 5 + r.Intn("cfg", 120)
	if r.Tier == "thorough" {
		nFrames = 5 + r.Intn("cfg", 500)
	}
	r.SetCfg("frames", nFrames)
	// a well-formed flood: the peer opens an unreliable tube, sends more datagrams than the tube buffers while
	// the application does not read it, and then ends the tube
	if r.Intn("cfg", 5) == 0 {
		nFlood := []int{990, 1000, 1001, 1100, 2500}[r.Intn("cfg", 5)]
		n.Inject(byzAddr, honestAddr, []byte{floodID, 0x01, 0, 0, byte(common.PFTube), 0, 0, 0, 0, 0, 0, 0}, 0, "flood-req")
		time.Sleep(50 * time.Millisecond)
		for i := 0; i < nFlood; i++ {
			f := []byte{floodID, 0x00, 0, 8, 0, 0, 0, 0, 0, 0, 0, 0, 'f', 'l', 'o', 'o', 'd', 0, 0, 0}
			binary.BigEndian.PutUint32(f[8:12], uint32(i+1))
			n.Inject(byzAddr, honestAddr, f, 0, "flood-data")
			if i%200 == 199 {
				time.Sleep(5 * time.Millisecond)
			}
		}
		fin := []byte{floodID, 0x10, 0, 0, 0, 0, 0, 0, 0, 0, 0, 0}
		binary.BigEndian.PutUint32(fin[8:12], uint32(nFlood+1))
		n.Inject(byzAddr, honestAddr, fin, 0, "flood-fin")
		r.CountFault("unread-unreliable-tube-flooded-then-ended", 1)
	}
	// a scripted closing exchange in every order: the peer opens a reliable tube, the honest application closes
	// it at once; the peer acknowledges that FIN, and sends its own FIN and its last data frames - in any order,
	// with gaps between them or none (a FIN that overtakes the data before it is parked until the gap fills)
	if r.Intn("script", 4) == 0 {
		rel := byte(1 << 2)
		n.Inject(byzAddr, honestAddr, []byte{scriptID, 0x01 | rel, 0, 0, byte(common.PFTube), 0, 0, 0, 0, 0, 0, 0}, 0, "script-req")
		time.Sleep(scriptCloseAfter + time.Duration(r.Intn("script", 80))*time.Millisecond)
		nData := r.Intn("script", 4)
		ackOfFin := uint32(1 + r.Intn("script", 3))
		mk := func(flags byte, ackNo, frameNo uint32, data string) []byte {
			f := make([]byte, 12+len(data))
			f[0], f[1] = scriptID, flags|rel
			binary.BigEndian.PutUint16(f[2:4], uint16(len(data)))
			binary.BigEndian.PutUint32(f[4:8], ackNo)
			binary.BigEndian.PutUint32(f[8:12], frameNo)
			copy(f[12:], data)
			return f
		}
		steps := [][]byte{mk(1<<3, ackOfFin, 1, "")} // acknowledgement of the honest FIN
		for d := 0; d < nData; d++ {
			fl := byte(0)
			if r.Intn("script", 2) == 0 {
				fl = 1 << 3
			}
			steps = append(steps, mk(fl, ackOfFin, uint32(1+d), "last words"))
		}
		finFlags := byte(1 << 4)
		if r.Intn("script", 2) == 0 {
			finFlags |= 1 << 3
		}
		steps = append(steps, mk(finFlags, ackOfFin, uint32(1+nData), ""))
		// any order
		for i := len(steps) - 1; i > 0; i-- {
			j := r.Intn("script", i+1)
			steps[i], steps[j] = steps[j], steps[i]
		}
		for _, f := range steps {
			n.Inject(byzAddr, honestAddr, f, 0, "script-frame")
			if r.Intn("script", 2) == 0 {
				time.Sleep(time.Duration(r.Intn("script", 60)) * time.Millisecond)
			}
			if r.Intn("script", 6) == 0 {
				n.Inject(byzAddr, honestAddr, f, 0, "script-frame-again")
			}
		}
		r.CountFault("scripted-closing-exchange", 1)
	}
	near := uint32(1)
	for i := 0; i < nFrames; i++ {
		if !r.Op("byz") {
			continue
		}
		f := rawFrame(r, "byz", bgID, near)
		near += uint32(r.Intn("byz", 3))
		if i < 6 {
			r.Sample = append(r.Sample, FrameDesc(f)+fmt.Sprintf(" len=%d", len(f)))
		}
		n.Inject(byzAddr, honestAddr, f, 0, "byzantine-frame")
		r.CountFault("byzantine-frame", 1)
		if r.Intn("byz", 3) == 0 {
			time.Sleep(time.Duration(r.Intn("byz", 30)) * time.Millisecond)
		}
	}
	// identifier squatting: the peer opens tubes under every identifier of the honest side's own parity
	// (of one kind or both); the honest application then opens a tube of its own.  The call must come back
	// (with a tube or with an error), and the muxer must go on serving.
	if r.Intn("squat", 5) == 0 {
		hp := byte(0)
		if honest == mp.B {
			hp = 1
		}
		kinds := r.Intn("squat", 3) // 0 reliable, 1 unreliable, 2 both
		left := r.Intn("squat", 3)  // identifiers left free: usually none
		if r.Intn("squat", 2) == 0 {
			left = 0
		}
		for k := 0; k < 2; k++ {
			if (k == 0 && kinds == 1) || (k == 1 && kinds == 0) {
				continue
			}
			fl := byte(0x01)
			if k == 0 {
				fl |= 1 << 2
			}
			for id := 0; id < 128-left; id++ {
				n.Inject(byzAddr, honestAddr, []byte{hp + byte(2*id), fl, 0, 0, byte(common.PFTube), 0, 0, 0, 0, 0, 0, 0}, 0, "squat-req")
				if id%32 == 31 {
					time.Sleep(5 * time.Millisecond)
				}
			}
		}
		r.CountFault("identifier-space-squatted", 1)
		time.Sleep(time.Duration(50+r.Intn("squat", 500)) * time.Millisecond)
		for k := 0; k < 2; k++ {
			k := k
			r.Obligation(1)
			var err error
			if !WithTimeout(r, 3*time.Minute, func() {
				if k == 0 {
					_, err = honest.CreateReliableTube(common.ExecTube)
				} else {
					_, err = honest.CreateUnreliableTube(common.ExecTube)
				}
			}) {
				r.Violate("C11/create-does-not-return", "after the peer opened tubes under %d of the 128 identifiers of the local parity, Create%sTube did not return within 3 simulated minutes; goroutines:\n  %s",
					128-left, []string{"Reliable", "Unreliable"}[k], BlockedSummary())
				break
			}
			if err != nil {
				r.Probe("create-refused-after-squatting")
			}
			r.Logf("squatted %d identifiers (kinds %d); own Create%sTube -> %v", 128-left, kinds, []string{"Reliable", "Unreliable"}[k], err)
		}
	}
	// oracle 1: the unrelated tube's transfer completes
	for i := 0; i < 2; i++ {
		select {
		case msg := <-done:
			r.Obligation(1)
			if msg != "" {
				r.Violate("C11/unrelated-tube-disturbed", "%s (after %d Byzantine frames on other tubes)", msg, nFrames)
			}
		case <-time.After(10 * time.Minute):
			r.Obligation(1)
			r.Violate("C11/unrelated-tube-stalled", "transfer on the unrelated tube did not complete within 10 simulated minutes; goroutines:\n  %s", BlockedSummary())
			i = 2
		}
	}
	// open requests that arrive while the muxer is being stopped: the peer's last frames are on their way when the
	// application calls Stop
	if r.Intn("latereq", 3) == 0 {
		pp := byte(1) // the peer's parity
		if byz == mp.A {
			pp = 0
		}
		for q := 0; q < 1+r.Intn("latereq", 6); q++ {
			fl := byte(0x01)
			if r.Intn("latereq", 2) == 0 {
				fl |= 1 << 2
			}
			id := pp + byte(2*(8+r.Intn("latereq", 100)))
			n.Inject(byzAddr, honestAddr, []byte{id, fl, 0, 0, byte(common.PFTube), 0, 0, 0, 0, 0, 0, 0}, time.Duration(r.Intn("latereq", 3000))*time.Microsecond, "req-during-stop")
		}
		r.CountFault("open-requests-arriving-during-stop", 1)
		if r.Intn("latereq", 2) == 0 {
			// ... and the goroutines that meet (the muxer's receiver, Stop) are perturbed
			r.ArmYields([]string{[]string{"tubes.(*Muxer).receiver", "tubes.(*Muxer).Stop", "tubes.(*Muxer)"}[r.Intn("latereq", 3)]}, 1+r.Intn("latereq", 6), 1+r.Intn("latereq", 40), []float64{0.1, 0.5, 1}[r.Intn("latereq", 3)])
			r.YieldsOn(true)
		}
		time.Sleep(n.Cfg.Latency + time.Duration(r.Intn("latereq", 3000))*time.Microsecond - 1500*time.Microsecond)
	}
	// oracle 2: the honest muxer can still be stopped
	r.Obligation(1)
	r.Logf("stopping the honest muxer")
	stopped := WithTimeout(r, 5*time.Minute, func() { honest.Stop() })
	r.Logf("honest muxer stopped: %v", stopped)
	if !stopped {
		r.Violate("C11/stop-does-not-return", "Muxer.Stop did not return within 5 simulated minutes after Byzantine frames; goroutines:\n  %s", BlockedSummary())
	}
	WithTimeout(r, 5*time.Minute, func() { byz.Stop() })
	r.Sample = append(r.Sample, fmt.Sprintf("frames=%d bg=%d bytes", nFrames, total))
	time.Sleep(5 * time.Second)
}

// ---------------------------------------------------------------------------
// application-protocol decoders fed by a peer-controlled tube

type decoder struct {
	name  string
	ttype tubes.TubeType
	run   func(t *tubes.Reliable)
	valid func(r *Run) []byte
}

func validIntent(r *Run) []byte {
	k := newX25519()
	cert := SelfSigned(k.Public, certs.RawStringName("delegate"))
	in := authgrants.Intent{
		GrantType: authgrants.Command, TargetPort: 77,
		StartTime: time.Now(), ExpTime: time.Now().Add(time.Hour),
		TargetSNI: certs.DNSName("target.sim"), TargetUsername: "user", DelegateCert: *cert,
	}
	in.AssociatedData.CommandGrantData.Cmd = "ls -l"
	var b bytes.Buffer
	if err := authgrants.WriteIntentRequest(&b, in); err != nil {
		panic("sim: cannot encode a valid intent: " + err.Error())
	}
	return b.Bytes()
}

func decoders() []decoder {
	return []decoder{
		{"userauth.GetInitMsg", common.UserAuthTube, func(t *tubes.Reliable) { userauth.GetInitMsg(t) },
			func(r *Run) []byte { return append([]byte{0, 4}, "user"...) }},
		{"codex.GetCmd", common.ExecTube, func(t *tubes.Reliable) { codex.GetCmd(t) },
			func(r *Run) []byte {
				b := []byte{0, 0, 0, 0, 2, 'l', 's', 0, 0, 0, 5, 'x', 't', 'e', 'r', 'm'}
				return b
			}},
		{"codex.HandleSize", common.WinSizeTube, func(t *tubes.Reliable) { codex.HandleSize(t, nil) },
			func(r *Run) []byte { return []byte{0, 24, 0, 80, 0, 0, 0, 0} }},
		{"portforwarding.readPacket", common.PFControlTube, func(t *tubes.Reliable) { portforwarding.VerifReadPacket(t) },
			func(r *Run) []byte { return append([]byte{1, 4, 0, 14}, "127.0.0.1:8080"...) }},
		{"authgrants.ReadIntentRequest", common.AuthGrantTube, func(t *tubes.Reliable) { authgrants.ReadIntentRequest(t) }, validIntent},
		{"authgrants.ReadIntentCommunication", common.AuthGrantTube, func(t *tubes.Reliable) { authgrants.ReadIntentCommunication(t) },
			func(r *Run) []byte { b := validIntent(r); b[0] = byte(authgrants.IntentCommunication); return b }},
		{"authgrants.ReadConfOrDenial", common.AuthGrantTube, func(t *tubes.Reliable) { authgrants.ReadConfOrDenial(t) },
			func(r *Run) []byte { return append([]byte{byte(authgrants.IntentDenied), 6}, "denied"...) }},
		{"authgrants.ReadTargetInfo", common.PrincipalProxyTube, func(t *tubes.Reliable) { authgrants.ReadTargetInfo(t) },
			func(r *Run) []byte { return r.Bytes("ti", 40) }},
		{"authgrants.ReadResponse", common.PrincipalProxyTube, func(t *tubes.Reliable) { authgrants.ReadResponse(t) },
			func(r *Run) []byte { return []byte{1} }},
		{"common.ReadString", common.AuthGrantTube, func(t *tubes.Reliable) { common.ReadString(t) },
			func(r *Run) []byte { return append([]byte{5}, "hello"...) }},
	}
}

// byzBytes produces the byte string the Byzantine peer writes into the tube.
func byzBytes(r *Run, d decoder) []byte {
	key := "bytes"
	valid := d.valid(r)
	switch r.Intn(key, 7) {
	case 0: // random
		return r.Bytes(key, r.Intn(key, 300))
	case 1: // valid, cut in the middle of a field (early close)
		return valid[:r.Intn(key, len(valid)+1)]
	case 2: // valid with one byte changed
		b := append([]byte(nil), valid...)
		if len(b) > 0 {
			b[r.Intn(key, len(b))] = byte(r.U64(key))
		}
		return b
	case 3: // extreme length prefixes at the front (1, 2 and 4 byte big-endian lengths all become huge)
		b := append([]byte(nil), valid...)
		for i := 0; i < len(b) && i < 1+r.Intn(key, 12); i++ {
			b[i] = []byte{0xff, 0x7f, 0x04, 0x00}[r.Intn(key, 4)]
		}
		return b
	case 4: // 32-bit lengths of tens of MiB at every 4-byte position of the first bytes
		b := append([]byte(nil), valid...)
		for len(b) < 16 {
			b = append(b, 0)
		}
		pos := r.Intn(key, 10)
		binary.BigEndian.PutUint32(b[pos:], uint32(16<<20+r.Intn(key, 48<<20)))
		return b
	case 5: // every grant type / message type byte
		b := append([]byte(nil), valid...)
		if len(b) > 1 {
			b[0] = byte(r.Intn(key, 8))
			b[1] = byte(r.Intn(key, 8))
		}
		return b
	}
	// valid followed by trailing garbage
	return append(append([]byte(nil), valid...), r.Bytes(key, r.Intn(key, 50))...)
}

func scByzBytes(r *Run) {
	n := NewNet(r)
	defer n.Stop()
	n.Quiet = true
	n.Cfg.Latency = time.Duration(1+r.Intn("cfg", 20)) * time.Millisecond
	mp := NewMuxPair(r, n, 0)
	ds := decoders()
	d := ds[r.Intn("cfg", len(ds))]
	r.SetCfg("decoder", d.name)
	payload := byzBytes(r, d)
	closeAfter := r.Intn("cfg", 4) != 0
	r.SetCfg("bytes", len(payload))
	r.SetCfg("close", closeAfter)

	type outcome struct {
		alloc uint64
	}
	res := make(chan outcome, 1)
	r.Go(func() {
		t, err := mp.A.Accept()
		if err != nil {
			return
		}
		rel, ok := t.(*tubes.Reliable)
		if !ok {
			return
		}
		var m0, m1 runtime.MemStats
		runtime.ReadMemStats(&m0)
		d.run(rel)
		runtime.ReadMemStats(&m1)
		res <- outcome{alloc: m1.TotalAlloc - m0.TotalAlloc}
	})
	bt, err := mp.B.CreateReliableTube(d.ttype)
	if err != nil {
		r.Violate("C11/nofault/create-failed", "CreateReliableTube: %v", err)
		return
	}
	if r.Op("write") {
		// written in drawn fragments so that field boundaries fall between reads
		for off := 0; off < len(payload); {
			k := 1 + r.Intn("frag", len(payload))
			if off+k > len(payload) {
				k = len(payload) - off
			}
			bt.Write(payload[off : off+k])
			off += k
			if r.Intn("frag", 2) == 0 {
				time.Sleep(time.Duration(r.Intn("frag", 50)) * time.Millisecond)
			}
		}
	}
	r.CountFault("byzantine-bytes", 1)
	time.Sleep(time.Second)
	// the stream ends: either the peer closes the tube or the whole session goes away
	if closeAfter {
		bt.Close()
	} else {
		WithTimeout(r, 2*time.Minute, func() { mp.B.Stop() })
	}
	r.Obligation(1)
	returned := false
	select {
	case o := <-res:
		returned = true
		limit := uint64(8<<20) + 64*uint64(len(payload))
		r.Obligation(1)
		if o.alloc > limit {
			r.Violate("C11/alloc-disproportionate/"+d.name, "%s allocated %d bytes while reading a tube that carried %d bytes (limit %d)", d.name, o.alloc, len(payload), limit)
		}
	case <-time.After(10 * time.Minute):
		if closeAfter {
			r.Violate("C11/reader-never-returns/"+d.name, "%s did not return within 10 simulated minutes after the peer closed the tube (it wrote %d bytes); goroutines:\n  %s", d.name, len(payload), BlockedSummary())
		} else {
			// the peer vanished without closing the tube: the reader is released when the
			// local muxer is stopped, which is judged next
			r.Probe("reader-blocked-until-local-stop")
		}
	}
	stopped := WithTimeout(r, 5*time.Minute, func() { mp.A.Stop() })
	if !stopped {
		r.Violate("C11/stop-does-not-return", "Muxer.Stop did not return within 5 simulated minutes; goroutines:\n  %s", BlockedSummary())
	}
	if !closeAfter && !returned {
		select {
		case <-res:
		case <-time.After(time.Minute):
			r.Violate("C11/reader-never-returns/"+d.name, "%s still blocked one simulated minute after the local muxer was stopped; goroutines:\n  %s", d.name, BlockedSummary())
		}
	}
	mp.StopBoth(r, 5*time.Minute)
	r.Sample = append(r.Sample, fmt.Sprintf("decoder=%s bytes=%x", d.name, payload[:min(len(payload), 48)]))
	time.Sleep(5 * time.Second)
}

var _ = net.IPv4
