package sim

import (
	"errors"
	"os/exec"
	"time"

	"github.com/AstromechZA/etcpwdparse"

	"hop.computer/hop/pkg/thunks"
)

// resetThunks puts the repository's own seams into their simulated default:
// the clock is the bubble's fake clock, no user exists, no process is ever
// started.  Scenarios override LookupUser / StartCmd as they need.
func resetThunks() {
	thunks.TimeNow = time.Now
	thunks.UserHomeDir = func() (string, error) { return "/home/sim", nil }
	thunks.LookupUser = func(string) (*etcpwdparse.EtcPasswdEntry, error) { return nil, thunks.ErrUserNotFound }
	thunks.StartCmd = func(*exec.Cmd) error { return errors.New("sim: process creation is stubbed") }
}
