// Command worker executes simulated runs (DESIGN.md section 2.1).  It is driven
// by /verif/bin/check and talks JSON lines on the file named by -out.
package main

import (
	"bufio"
	"encoding/json"
	"flag"
	"fmt"
	"os"
	"regexp"
	"runtime"
	"strings"
	"syscall"
	"time"

	"verif/sim"
)

type replaySpec struct {
	Scenario string   `json:"scenario"`
	Seed     uint64   `json:"seed"`
	Run      uint64   `json:"run"`
	Tier     string   `json:"tier"`
	Suppress []string `json:"suppress"`
}

func main() {
	// Determinism preconditions are enforced here, not trusted from the environment.
	if !strings.Contains(os.Getenv("GODEBUG"), "asyncpreemptoff=1") {
		env := os.Environ()
		gd := os.Getenv("GODEBUG")
		if gd != "" {
			gd += ","
		}
		env = append(env, "GODEBUG="+gd+"asyncpreemptoff=1")
		exe, err := os.Executable()
		if err != nil {
			fmt.Fprintln(os.Stderr, "worker:", err)
			os.Exit(2)
		}
		if err := syscall.Exec(exe, os.Args, env); err != nil {
			fmt.Fprintln(os.Stderr, "worker: re-exec:", err)
			os.Exit(2)
		}
	}
	runtime.GOMAXPROCS(1)
	os.Setenv("PATH", "")

	scenario := flag.String("scenario", "", "scenario name")
	seed := flag.Uint64("seed", 1, "base seed")
	from := flag.Uint64("from", 0, "first run index")
	to := flag.Uint64("to", 1, "last run index (exclusive)")
	stride := flag.Uint64("stride", 1, "run index stride")
	tier := flag.String("tier", "quick", "quick|thorough")
	out := flag.String("out", "", "output file (JSON lines)")
	budget := flag.Float64("budget", 0, "wall-clock budget in seconds (0 = none)")
	maxViol := flag.Int("maxviol", 3, "stop after this many violating runs")
	hashes := flag.Bool("hashes", false, "emit one line per run with its event hash (determinism self-test)")
	replay := flag.String("replay", "", "replay spec file (JSON); runs exactly one execution")
	trace := flag.Bool("trace", false, "keep the full event log")
	sites := flag.String("sites", "", "site table (JSON) written by the build step")
	list := flag.Bool("list", false, "list scenarios")
	tracerun := flag.Int64("tracerun", -1, "in batch mode, emit the full event log of this run index")
	knownFile := flag.String("known", "", "JSON file with a list of violation-class glob patterns that are listed findings: reported once per class, not counted towards -maxviol")
	recycle := flag.Int("recycle", 0, "exit with code 3 after this many runs so that the orchestrator starts a fresh process (0 = never)")
	flag.Parse()

	if *list {
		for _, n := range sim.ScenarioNames() {
			fmt.Println(n)
		}
		return
	}
	if *sites != "" {
		if err := sim.LoadSites(*sites); err != nil {
			fmt.Fprintln(os.Stderr, "worker: sites:", err)
			os.Exit(2)
		}
	}
	var w *bufio.Writer
	if *out == "" || *out == "-" {
		w = bufio.NewWriter(os.Stdout)
	} else {
		f, err := os.OpenFile(*out, os.O_CREATE|os.O_WRONLY|os.O_APPEND, 0o644)
		if err != nil {
			fmt.Fprintln(os.Stderr, "worker:", err)
			os.Exit(2)
		}
		defer f.Close()
		w = bufio.NewWriter(f)
	}
	emit := func(v any) {
		b, err := json.Marshal(v)
		if err != nil {
			fmt.Fprintln(os.Stderr, "worker: marshal:", err)
			os.Exit(2)
		}
		w.Write(b)
		w.WriteByte('\n')
		w.Flush()
	}

	if *replay != "" {
		b, err := os.ReadFile(*replay)
		if err != nil {
			fmt.Fprintln(os.Stderr, "worker:", err)
			os.Exit(2)
		}
		var rs replaySpec
		if err := json.Unmarshal(b, &rs); err != nil {
			fmt.Fprintln(os.Stderr, "worker: replay spec:", err)
			os.Exit(2)
		}
		sc := sim.Lookup(rs.Scenario)
		if sc == nil {
			fmt.Fprintln(os.Stderr, "worker: unknown scenario", rs.Scenario)
			os.Exit(2)
		}
		if rs.Tier == "" {
			rs.Tier = "quick"
		}
		emit(map[string]any{"begin": rs.Run})
		sim.OnCut = func(res *sim.Result) {
			emit(map[string]any{"result": res})
			w.Flush()
			os.Exit(0)
		}
		res := sim.Execute(sc, rs.Seed, rs.Run, rs.Tier, rs.Suppress, *trace)
		emit(map[string]any{"result": res})
		return
	}

	sc := sim.Lookup(*scenario)
	if sc == nil {
		fmt.Fprintln(os.Stderr, "worker: unknown scenario", *scenario)
		os.Exit(2)
	}
	var known []*regexp.Regexp
	if *knownFile != "" {
		b, err := os.ReadFile(*knownFile)
		if err != nil {
			fmt.Fprintln(os.Stderr, "worker:", err)
			os.Exit(4)
		}
		var pats []string
		if err := json.Unmarshal(b, &pats); err != nil {
			fmt.Fprintln(os.Stderr, "worker: known:", err)
			os.Exit(4)
		}
		for _, p := range pats {
			known = append(known, regexp.MustCompile("^"+strings.ReplaceAll(regexp.QuoteMeta(p), `\*`, ".*")+"$"))
		}
	}
	isKnown := func(class string) bool {
		for _, re := range known {
			if re.MatchString(class) {
				return true
			}
		}
		return false
	}
	reportedKnown := map[string]bool{}
	agg := sim.NewAggregate()
	start := time.Now()
	nviol := 0
	done := 0
	next := *from
	exit := 0
	var cur uint64
	// account records one finished (or cut) run; it reports whether the batch must stop
	var account func(res *sim.Result) bool
	sim.OnCut = func(res *sim.Result) {
		// the run showed a violation and then never finished: report it, end this process
		// (its goroutines cannot be stopped) and let the orchestrator continue after it
		account(res)
		agg.WallS = time.Since(start).Seconds()
		emit(map[string]any{"summary": agg, "next": cur + *stride})
		w.Flush()
		os.Exit(3)
	}
	account = func(res *sim.Result) bool {
		i := cur
		if int64(i) == *tracerun {
			emit(map[string]any{"trace": res.Tail, "i": i, "hash": res.Hash})
		}
		next = i + *stride
		done++
		agg.Add(res)
		if *hashes {
			emit(map[string]any{"hash": res.Hash, "i": i, "events": res.Events})
		}
		if len(res.Viol) > 0 {
			allKnown, newKnown := true, false
			for _, v := range res.Viol {
				if !isKnown(v.Class) {
					allKnown = false
				} else if !reportedKnown[v.Class] {
					reportedKnown[v.Class] = true
					newKnown = true
				}
			}
			if !allKnown || newKnown {
				emit(map[string]any{"violation": res, "counted": !allKnown})
			}
			if !allKnown {
				nviol++
				if nviol >= *maxViol {
					return true
				}
			}
		}
		if res.Deadlock != "" || (*recycle > 0 && done >= *recycle) {
			// goroutines of that run stay parked in this process: ask for a fresh one
			exit = 3
			return true
		}
		return false
	}
	for i := *from; i < *to; i += *stride {
		if *budget > 0 && time.Since(start).Seconds() > *budget {
			break
		}
		emit(map[string]any{"begin": i})
		cur = i
		if account(sim.Execute(sc, *seed, i, *tier, nil, int64(i) == *tracerun)) {
			break
		}
	}
	agg.WallS = time.Since(start).Seconds()
	emit(map[string]any{"summary": agg, "next": next})
	w.Flush()
	os.Exit(exit)
}
