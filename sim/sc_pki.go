package sim

import (
	"bytes"
	"encoding/binary"
	"fmt"
	"sort"
	"time"

	"golang.org/x/crypto/sha3"

	"hop.computer/hop/certs"
	"hop.computer/hop/keys"
)

// C04 — certificate verification accepts exactly the valid chains, in a PKI
// that lives in simulated time (issuance and verification read the clock) and
// whose certificates travel as bytes that can be corrupted.

func init() {
	Register(&Scenario{Name: "pki-lifecycle", Property: "C04", Fn: scPKI, MaxSim: 40 * 365 * 24 * time.Hour})
}

// certRec is the harness's record of one certificate: the bytes as they travel,
// the fields parsed by the harness's own minimal decoder, and the issuing history.
type certRec struct {
	name     string
	raw      []byte
	obj      *certs.Certificate // what the code under test works with (parsed from raw by its own parser)
	parsed   bool               // the harness decoder accepted raw
	typ      byte
	issued   int64
	expires  int64
	pub      [32]byte
	parent   [32]byte
	fp       [32]byte
	names    [][2]string // (type byte as string, label)
	signer   *certRec    // issuing history: whose key signed these bytes (nil for self-signed leaves)
	signPub  [32]byte    // public key of the signer at issuance
	modified bool        // bytes differ from what was signed
	mutation string
}

// decode is the harness's independent decoder of the certificate layout.
func (c *certRec) decode() {
	b := c.raw
	c.parsed = false
	if len(b) < 84+2+64 {
		return
	}
	c.typ = b[1]
	c.issued = int64(binary.BigEndian.Uint64(b[4:12]))
	c.expires = int64(binary.BigEndian.Uint64(b[12:20]))
	if c.issued < 0 || c.expires < 0 {
		return
	}
	copy(c.pub[:], b[20:52])
	copy(c.parent[:], b[52:84])
	chunkLen := int(binary.BigEndian.Uint16(b[84:86]))
	if chunkLen < 2 || chunkLen > 512 || len(b) != 84+chunkLen+64 {
		return
	}
	c.names = nil
	p := b[86 : 84+chunkLen]
	for len(p) > 0 {
		if len(p) < 3 {
			return
		}
		bs, typ, il := int(p[0]), p[1], int(p[2])
		if bs < 3 || bs > len(p) || il > bs-3 {
			return
		}
		c.names = append(c.names, [2]string{string([]byte{typ}), string(p[3 : 3+il])})
		p = p[bs:]
	}
	h := sha3.New256()
	h.Write(b)
	h.Sum(c.fp[:0])
	c.parsed = true
}

func newRec(name string, raw []byte, signer *certRec) *certRec {
	c := &certRec{name: name, raw: raw, signer: signer}
	c.decode()
	if signer != nil {
		c.signPub = signer.pub
	} else {
		c.signPub = c.pub
	}
	c.reparse()
	return c
}

// reparse builds the object the code under test sees, with its own parser.
func (c *certRec) reparse() {
	obj := &certs.Certificate{}
	n, err := obj.ReadFrom(bytes.NewReader(c.raw))
	if err != nil || int(n) != len(c.raw) {
		c.obj = nil
		return
	}
	c.obj = obj
}

func (c *certRec) mutate(r *Run, others []*certRec) *certRec {
	m := &certRec{name: c.name + "'", raw: append([]byte(nil), c.raw...), signer: c.signer, signPub: c.signPub, modified: true}
	b := m.raw
	switch r.Intn("mut", 9) {
	case 0:
		off := r.Intn("mut", len(b))
		b[off] ^= 1 << uint(r.Intn("mut", 8))
		m.mutation = fmt.Sprintf("bit flip at byte %d", off)
	case 1:
		b[1] = []byte{1, 2, 3, 0, 4}[r.Intn("mut", 5)]
		m.mutation = fmt.Sprintf("type byte := %d", b[1])
	case 2:
		o := others[r.Intn("mut", len(others))]
		copy(b[52:84], o.fp[:])
		m.mutation = "parent fingerprint := fingerprint of " + o.name
	case 3:
		if len(b) > 84+2+3+64 {
			b[87] ^= byte(1 + r.Intn("mut", 3))
			m.mutation = "name type changed"
		} else {
			b[2] ^= 1
			m.mutation = "reserved byte changed"
		}
	case 4:
		binary.BigEndian.PutUint64(b[12:20], uint64(c.expires+int64(1+r.Intn("mut", 1000000))))
		m.mutation = "expiry extended"
	case 5:
		binary.BigEndian.PutUint64(b[4:12], uint64(c.issued-int64(1+r.Intn("mut", 1000000))))
		m.mutation = "issue time moved back"
	case 6:
		copy(b[20:52], r.Bytes("mut", 32))
		m.mutation = "public key replaced"
	case 7:
		l := r.Intn("mut", len(b))
		m.raw = b[:l]
		m.mutation = fmt.Sprintf("truncated to %d bytes", l)
	default:
		m.raw = append(b, r.Bytes("mut", 1+r.Intn("mut", 8))...)
		m.mutation = "trailing bytes appended"
	}
	if bytes.Equal(m.raw, c.raw) {
		m.raw[len(m.raw)-1] ^= 1
		m.mutation = "last signature byte flipped"
	}
	m.decode()
	m.reparse()
	return m
}

func validAt(c *certRec, now time.Time) bool {
	t := now.Unix()
	// IssuedAt <= now < ExpiresAt, both encoded in whole seconds
	return c.issued <= t && now.Before(time.Unix(c.expires, 0))
}

// sigOK: ground truth from the issuing history, not a re-implementation of Ed25519.
func sigOK(child, parent *certRec) bool {
	return !child.modified && child.parsed && parent.parsed && child.signPub == parent.pub
}

func scPKI(r *Run) {
	type pkiNode struct {
		rec *certRec
		obj *certs.Certificate // in-memory object with private key (issuer side)
	}
	var roots, inters, leaves []*pkiNode
	var allRecs []*certRec
	var instants []time.Time
	mark := func(c *certRec) {
		for _, s := range []int64{c.issued - 1, c.issued, c.expires - 1, c.expires} {
			instants = append(instants, time.Unix(s, 0))
			instants = append(instants, time.Unix(s, int64(r.Intn("inst", 999999999))))
		}
	}
	marshal := func(c *certs.Certificate) []byte {
		b, err := c.Marshal()
		must(err)
		return b
	}
	nameTypes := []certs.IDType{certs.TypeRaw, certs.TypeDNSName, certs.TypeIPv4Address, certs.TypeIPv6Address}
	labels := []string{"alpha", "beta", "alpha.example", "10.0.0.1", "", "Alpha", "ALPHA.EXAMPLE", "ssh.example", "\u017fsh.example", "bank.example", "ban\u212a.example", "alpha.example."}
	// names are built the way callers build them: through the public constructors where one exists
	mkName := func(t certs.IDType, label string) certs.Name {
		switch t {
		case certs.TypeRaw:
			return certs.RawStringName(label)
		case certs.TypeDNSName:
			return certs.DNSName(label)
		}
		return certs.Name{Type: t, Label: []byte(label)}
	}
	drawName := func(key string) certs.Name {
		return mkName(nameTypes[r.Intn(key, len(nameTypes))], labels[r.Intn(key, len(labels))])
	}
	pause := func() {
		switch r.Intn("pause", 5) {
		case 0:
		case 1:
			time.Sleep(time.Duration(1+r.Intn("pause", 5000)) * time.Millisecond)
		case 2:
			time.Sleep(time.Duration(1+r.Intn("pause", 3600)) * time.Second)
		case 3:
			time.Sleep(time.Duration(1+r.Intn("pause", 30*24)) * time.Hour)
		default:
			time.Sleep(time.Duration(1+r.Intn("pause", 200*24)) * time.Hour)
		}
	}
	nRoots := 1 + r.Intn("cfg", 3)
	for i := 0; i < nRoots; i++ {
		pause()
		k := keys.GenerateNewSigningKeyPair()
		root, err := certs.SelfSignRoot(&certs.Identity{PublicKey: k.Public, Names: []certs.Name{certs.RawStringName(fmt.Sprintf("root%d", i))}}, k)
		must(err)
		must(root.ProvideKey((*[32]byte)(&k.Private)))
		rec := newRec(fmt.Sprintf("root%d", i), marshal(root), nil)
		roots = append(roots, &pkiNode{rec, root})
		allRecs = append(allRecs, rec)
		mark(rec)
		for j := 0; j < 1+r.Intn("cfg", 2); j++ {
			pause()
			ik := keys.GenerateNewSigningKeyPair()
			inter, err := certs.IssueIntermediate(root, &certs.Identity{PublicKey: ik.Public, Names: []certs.Name{certs.RawStringName(fmt.Sprintf("int%d.%d", i, j))}})
			if err != nil {
				continue // root no longer valid at this simulated time
			}
			must(inter.ProvideKey((*[32]byte)(&ik.Private)))
			irec := newRec(fmt.Sprintf("int%d.%d", i, j), marshal(inter), rec)
			inters = append(inters, &pkiNode{irec, inter})
			allRecs = append(allRecs, irec)
			mark(irec)
			for l := 0; l < 1+r.Intn("cfg", 3); l++ {
				pause()
				lk := newX25519()
				nn := []certs.Name{}
				for q := 0; q < r.Intn("cfg", 3); q++ {
					nn = append(nn, drawName("names"))
				}
				var validity time.Duration
				switch r.Intn("cfg", 4) {
				case 0:
					validity = time.Duration(1+r.Intn("cfg", 60)) * time.Second
				case 1:
					validity = time.Duration(1+r.Intn("cfg", 48)) * time.Hour
				case 2:
					validity = time.Duration(1+r.Intn("cfg", 500)) * 24 * time.Hour // longer than the intermediate: clamped
				default:
					validity = 7 * 24 * time.Hour
				}
				leaf, err := certs.IssueLeafWithValidity(inter, &certs.Identity{PublicKey: lk.Public, Names: nn}, validity)
				if err != nil {
					continue
				}
				lrec := newRec(fmt.Sprintf("leaf%d.%d.%d", i, j, l), marshal(leaf), irec)
				leaves = append(leaves, &pkiNode{lrec, leaf})
				allRecs = append(allRecs, lrec)
				mark(lrec)
				// completeness at issuance: a chain produced by the issuing functions verifies right away
				st := certs.Store{}
				st.AddCertificate(rec.obj)
				r.Obligation(1)
				if err := st.VerifyLeaf(lrec.obj, certs.VerifyOptions{PresentedIntermediate: irec.obj}); err != nil && validAt(rec, time.Now()) && validAt(irec, time.Now()) {
					r.Violate("C04/issued-chain-rejected", "chain %s <- %s <- %s does not verify at issuance time %v: %v", lrec.name, irec.name, rec.name, time.Now().UTC(), err)
				}
			}
		}
	}
	// odd chains: type pairings the public issuing functions refuse, signed with real CA keys
	for q := 0; q < r.Intn("cfg", 3) && len(inters) > 0; q++ {
		x := inters[r.Intn("odd", len(inters))]
		k := keys.GenerateNewSigningKeyPair()
		typ := []certs.CertificateType{certs.Intermediate, certs.Root, certs.Leaf}[r.Intn("odd", 3)]
		y, err := certs.VerifIssue(x.obj, &certs.Identity{PublicKey: k.Public, Names: []certs.Name{certs.RawStringName("odd")}}, typ, time.Now(), 300*24*time.Hour)
		if err != nil {
			continue
		}
		certs.VerifSetKey(y, (*[32]byte)(&k.Private))
		yrec := newRec(fmt.Sprintf("odd-%s-under-%s", typ, x.rec.name), marshal(y), x.rec)
		allRecs = append(allRecs, yrec)
		inters = append(inters, &pkiNode{yrec, y})
		mark(yrec)
		lk := newX25519()
		lt := []certs.CertificateType{certs.Leaf, certs.Leaf, certs.Intermediate}[r.Intn("odd", 3)]
		l, err := certs.VerifIssue(y, &certs.Identity{PublicKey: lk.Public, Names: []certs.Name{drawName("names")}}, lt, time.Now(), 24*time.Hour)
		if err != nil {
			continue
		}
		lrec := newRec(fmt.Sprintf("odd-%s-under-%s", lt, yrec.name), marshal(l), yrec)
		allRecs = append(allRecs, lrec)
		leaves = append(leaves, &pkiNode{lrec, l})
		mark(lrec)
	}
	// validity windows that are NOT nested: an intermediate whose validity starts in the future with a
	// leaf under it that is valid already (and the mirror image: a leaf that outlives its intermediate).
	// The issuing functions never produce these; a CA key signs whatever window it is told to.
	for q := 0; q < r.Intn("cfg", 3) && len(roots) > 0; q++ {
		rt := roots[r.Intn("unnested", len(roots))]
		now := time.Now()
		ik := keys.GenerateNewSigningKeyPair()
		var iFrom, iTo, lFrom, lTo time.Time
		d := func(max int) time.Duration { return time.Duration(1+r.Intn("unnested", max)) * time.Second }
		rootFrom, rootTo := time.Unix(rt.rec.issued, 0), time.Unix(rt.rec.expires, 0)
		switch r.Intn("unnested", 5) {
		case 3: // the intermediate OUTLIVES its root, the leaf ends long before both
			iFrom = now.Add(-d(1000))
			iTo = rootTo.Add(d(5000000))
			lFrom = now
			lTo = now.Add(d(100000))
		case 4: // the intermediate PREDATES its root, the leaf starts later than both
			iFrom = rootFrom.Add(-d(5000000))
			iTo = now.Add(d(5000000))
			lFrom = now.Add(d(100000))
			lTo = lFrom.Add(d(100000))
		case 0: // intermediate starts later than its leaf
			iFrom = now.Add(d(100000))
			iTo = iFrom.Add(d(1000000))
			lFrom = now.Add(-d(1000))
			lTo = iFrom.Add(d(500000))
		case 1: // leaf outlives its intermediate
			iFrom = now.Add(-d(1000))
			iTo = now.Add(d(100000))
			lFrom = now
			lTo = iTo.Add(d(100000))
		default: // both: the leaf's window strictly contains the intermediate's
			iFrom = now.Add(d(50000))
			iTo = iFrom.Add(d(50000))
			lFrom = now.Add(-d(1000))
			lTo = iTo.Add(d(50000))
		}
		z, err := certs.VerifIssueWindow(rt.obj, &certs.Identity{PublicKey: ik.Public, Names: []certs.Name{certs.RawStringName("unnested")}}, certs.Intermediate, iFrom, iTo)
		if err != nil {
			continue
		}
		certs.VerifSetKey(z, (*[32]byte)(&ik.Private))
		zrec := newRec(fmt.Sprintf("unnested-int-under-%s", rt.rec.name), marshal(z), rt.rec)
		allRecs = append(allRecs, zrec)
		inters = append(inters, &pkiNode{zrec, z})
		mark(zrec)
		lk := newX25519()
		l, err := certs.VerifIssueWindow(z, &certs.Identity{PublicKey: lk.Public, Names: []certs.Name{drawName("names")}}, certs.Leaf, lFrom, lTo)
		if err != nil {
			continue
		}
		lrec := newRec(fmt.Sprintf("unnested-leaf-under-%s", zrec.name), marshal(l), zrec)
		allRecs = append(allRecs, lrec)
		leaves = append(leaves, &pkiNode{lrec, l})
		mark(lrec)
		r.CountFault("cert-unnested-validity", 1)
	}
	// a leaf issued DIRECTLY by a root (really signed by it, naming it as parent): no verification may take a
	// root-type certificate as the issuer of a leaf
	for q := 0; q < r.Intn("cfg", 2) && len(roots) > 0; q++ {
		rt := roots[r.Intn("direct", len(roots))]
		lk := newX25519()
		l, err := certs.VerifIssue(rt.obj, &certs.Identity{PublicKey: lk.Public, Names: []certs.Name{drawName("names")}}, certs.Leaf, time.Now(), 100*24*time.Hour)
		if err != nil {
			continue
		}
		lrec := newRec(fmt.Sprintf("leaf-directly-under-%s", rt.rec.name), marshal(l), rt.rec)
		allRecs = append(allRecs, lrec)
		leaves = append(leaves, &pkiNode{lrec, l})
		mark(lrec)
		r.CountFault("cert-leaf-issued-directly-by-root", 1)
	}
	// forged intermediates: signed with a key of the attacker's own, but NAMING a trusted root as parent; the
	// leaf under it is signed correctly with the forged intermediate's key.  Only the intermediate-to-root
	// signature stands between this chain and acceptance.
	for q := 0; q < r.Intn("cfg", 3) && len(roots) > 0; q++ {
		rt := roots[r.Intn("forged", len(roots))]
		ak := keys.GenerateNewSigningKeyPair()
		atkRoot, err := certs.SelfSignRoot(&certs.Identity{PublicKey: ak.Public, Names: []certs.Name{certs.RawStringName("attacker-root")}}, ak)
		must(err)
		must(atkRoot.ProvideKey((*[32]byte)(&ak.Private)))
		atkRec := newRec(fmt.Sprintf("attacker-root%d", q), marshal(atkRoot), nil)
		allRecs = append(allRecs, atkRec)
		ik := keys.GenerateNewSigningKeyPair()
		now := time.Now()
		y, err := certs.VerifIssueForged(atkRoot, rt.obj, &certs.Identity{PublicKey: ik.Public, Names: []certs.Name{certs.RawStringName("forged-int")}}, certs.Intermediate, now, now.Add(300*24*time.Hour))
		if err != nil {
			continue
		}
		certs.VerifSetKey(y, (*[32]byte)(&ik.Private))
		yrec := newRec(fmt.Sprintf("forged-int-naming-%s", rt.rec.name), marshal(y), atkRec)
		allRecs = append(allRecs, yrec)
		inters = append(inters, &pkiNode{yrec, y})
		mark(yrec)
		lk := newX25519()
		l, err := certs.VerifIssue(y, &certs.Identity{PublicKey: lk.Public, Names: []certs.Name{drawName("names")}}, certs.Leaf, now, 100*24*time.Hour)
		if err != nil {
			continue
		}
		lrec := newRec(fmt.Sprintf("leaf-under-%s", yrec.name), marshal(l), yrec)
		allRecs = append(allRecs, lrec)
		leaves = append(leaves, &pkiNode{lrec, l})
		mark(lrec)
		r.CountFault("cert-forged-intermediate-naming-trusted-root", 1)
	}
	if len(leaves) == 0 {
		return
	}
	// self-signed leaf and a rogue chain as additional material
	{
		k := newX25519()
		ss := SelfSigned(k.Public, drawName("names"))
		rec := newRec("selfsigned", marshal(ss), nil)
		leaves = append(leaves, &pkiNode{rec, ss})
		allRecs = append(allRecs, rec)
	}

	// verification instants: every boundary of every certificate, in order (the clock only moves forward)
	sort.Slice(instants, func(i, j int) bool { return instants[i].Before(instants[j]) })
	start := time.Now()
	var walk []time.Time
	for _, t := range instants {
		if t.After(start) {
			walk = append(walk, t)
		}
	}
	// thin out: at most 40 instants per run, always in order
	for len(walk) > 40 {
		i := r.Intn("thin", len(walk))
		walk = append(walk[:i], walk[i+1:]...)
	}
	walk = append([]time.Time{start}, walk...)

	// long-lived trust stores that many queries share (a server keeps one store for all its handshakes):
	// built certificate by certificate, or loaded from a PEM bundle the way LoadRootStoreFromPEMFile does
	type liveStore struct {
		st     *certs.Store
		stored []*certRec
		how    string
	}
	var liveStores []*liveStore
	for q := 0; q < r.Intn("cfg", 3); q++ {
		ls := &liveStore{st: new(certs.Store), how: "AddCertificate"}
		var pick []*certRec
		for _, rt := range roots {
			if r.Intn("live", 3) != 0 {
				pick = append(pick, rt.rec)
			}
		}
		for _, in := range inters {
			if r.Intn("live", 2) == 0 {
				pick = append(pick, in.rec)
			}
		}
		// (bundle order matters to a reader that reuses buffers: shuffle)
		for i := len(pick) - 1; i > 0; i-- {
			j := r.Intn("live", i+1)
			pick[i], pick[j] = pick[j], pick[i]
		}
		if r.Intn("live", 2) == 0 {
			ls.how = "PEM bundle"
			var bundle []byte
			ok := true
			for _, c := range pick {
				if c.obj == nil {
					ok = false
					break
				}
				pemBytes, err := certs.EncodeCertificateToPEM(c.obj)
				if err != nil {
					ok = false
					break
				}
				bundle = append(bundle, pemBytes...)
				if r.Intn("live", 3) == 0 {
					bundle = append(bundle, []byte("# a comment between two certificates\n")...)
				}
			}
			if !ok {
				continue
			}
			cs, err := certs.ReadManyCertificatesPEM(bytes.NewReader(bundle))
			if err != nil || len(cs) != len(pick) {
				r.Violate("C04/nofault/bundle-not-read-back", "a PEM bundle of %d certificates written by EncodeCertificateToPEM was read back as %d certificates (%v)", len(pick), len(cs), err)
				return
			}
			for i := range cs {
				ls.st.AddCertificate(&cs[i])
			}
			r.CountFault("store-from-pem-bundle", 1)
		} else {
			for _, c := range pick {
				if c.obj != nil {
					ls.st.AddCertificate(c.obj)
				}
			}
		}
		ls.stored = pick
		liveStores = append(liveStores, ls)
	}

	nQ := 0
	for _, at := range walk {
		if d := time.Until(at); d > 0 {
			time.Sleep(d)
		}
		now := time.Now()
		for q := 0; q < 6; q++ {
			if !r.Op("query") {
				continue
			}
			nQ++
			now := now // (per query: a query may name its own verification time)
			// trust store: subset of roots, sometimes stored intermediates, sometimes wrong-typed anchors
			store := certs.Store{}
			var stored []*certRec
			add := func(c *certRec) {
				if c.obj != nil {
					store.AddCertificate(c.obj)
					stored = append(stored, c)
				}
			}
			for _, rt := range roots {
				if r.Intn("store", 3) != 0 {
					add(rt.rec)
				}
			}
			for _, in := range inters {
				if r.Intn("store", 4) == 0 {
					add(in.rec)
				}
			}
			if r.Intn("store", 6) == 0 {
				add(leaves[r.Intn("store", len(leaves))].rec)
			}
			useLive := len(liveStores) > 0 && r.Intn("q", 3) == 0
			if useLive {
				ls := liveStores[r.Intn("q", len(liveStores))]
				store, stored = *ls.st, append([]*certRec(nil), ls.stored...)
				r.CountFault("query-on-long-lived-store", 1)
			}
			leaf := leaves[r.Intn("q", len(leaves))].rec
			var presented *certRec
			switch r.Intn("q", 4) {
			case 0: // none
			case 1: // a drawn (possibly wrong) one
				if len(inters) > 0 {
					presented = inters[r.Intn("q", len(inters))].rec
				}
			default: // the right one
				if leaf.signer != nil {
					presented = leaf.signer
				}
			}
			// corruption in transit / single-field forgery
			switch r.Intn("q", 5) {
			case 0:
				leaf = leaf.mutate(r, allRecs)
				r.CountFault("cert-mutation/leaf", 1)
			case 1:
				if presented != nil {
					presented = presented.mutate(r, allRecs)
					r.CountFault("cert-mutation/intermediate", 1)
				}
			case 2:
				// a mutated root placed in the store
				if len(roots) > 0 && !useLive {
					m := roots[r.Intn("q", len(roots))].rec.mutate(r, allRecs)
					add(m)
					r.CountFault("cert-mutation/stored-root", 1)
				}
			}
			var name certs.Name
			given := false // (the harness's own record of whether a name is requested, not Name.IsZero)
			nameKind := r.Intn("q", 5)
			switch nameKind {
			case 4: // a look-alike of a label the leaf carries: other case, a letter that folds to it, a trailing dot or blank
				if leaf.parsed && len(leaf.names) > 0 {
					n0 := leaf.names[r.Intn("q", len(leaf.names))]
					name, given = mkName(certs.IDType(n0[0][0]), lookAlike(r, n0[1])), true
					r.CountFault("look-alike-name-requested", 1)
				}
			case 0: // no name requested
			case 1: // one the leaf carries
				if leaf.parsed && len(leaf.names) > 0 {
					n0 := leaf.names[r.Intn("q", len(leaf.names))]
					name, given = mkName(certs.IDType(n0[0][0]), n0[1]), true
				}
			case 2: // same label, other type
				if leaf.parsed && len(leaf.names) > 0 {
					n0 := leaf.names[r.Intn("q", len(leaf.names))]
					name, given = mkName(certs.IDType(n0[0][0])^1, n0[1]), true
				}
			default:
				name, given = drawName("q"), true
			}
			if leaf.obj == nil {
				r.Probe("mutated-leaf-unparseable")
				continue // the code under test cannot even be handed this certificate
			}
			opts := certs.VerifyOptions{Name: name}
			// the caller may name the verification time; that also reaches instants the simulated clock has
			// passed already (before a root or an intermediate became valid)
			if len(instants) > 0 && r.Intn("q", 4) == 0 {
				now = instants[r.Intn("q", len(instants))]
				opts.CurrentTime = now
				r.CountFault("explicit-verification-time", 1)
			}
			if presented != nil && presented.obj != nil {
				opts.PresentedIntermediate = presented.obj
			} else {
				presented = nil
			}
			got := store.VerifyLeaf(leaf.obj, opts)

			// reference model of the iff
			want, why := false, ""
			func() {
				if !leaf.parsed || leaf.typ != 1 {
					why = "leaf is not of leaf type"
					return
				}
				if given {
					match := false
					for _, nm := range leaf.names {
						if nm[0] == string([]byte{byte(name.Type)}) && nm[1] == string(name.Label) {
							match = true
						}
					}
					if !match {
						why = "requested name (type,label) not on the leaf"
						return
					}
				}
				if !validAt(leaf, now) {
					why = "leaf not valid at the verification time"
					return
				}
				var inter *certRec
				if presented != nil && presented.parsed && presented.fp == leaf.parent {
					inter = presented
				} else {
					for _, s := range stored {
						if s.parsed && s.fp == leaf.parent {
							inter = s
						}
					}
				}
				if inter == nil {
					why = "no presented or stored certificate has the fingerprint the leaf names"
					return
				}
				if inter.typ != 2 {
					why = "the leaf's parent is not of intermediate type"
					return
				}
				if !validAt(inter, now) {
					why = "intermediate not valid at the verification time"
					return
				}
				if !sigOK(leaf, inter) {
					why = "leaf was not signed by that intermediate (issuing history) or was modified"
					return
				}
				var root *certRec
				for _, s := range stored {
					if s.parsed && s.fp == inter.parent {
						root = s
					}
				}
				if root == nil {
					why = "the intermediate's parent is not in the store"
					return
				}
				if root.typ != 3 {
					why = "the trust anchor is not of root type"
					return
				}
				if !validAt(root, now) {
					why = "root not valid at the verification time"
					return
				}
				if !sigOK(inter, root) {
					why = "intermediate was not signed by that root (issuing history) or was modified"
					return
				}
				want = true
			}()
			r.Obligation(1)
			if (got == nil) != want {
				desc := fmt.Sprintf("leaf %s (%s), presented %s, name kind %d, store %s, time %v", leaf.name, leaf.mutation, recName(presented), nameKind, recNames(stored), now.UTC())
				if got == nil {
					r.Violate("C04/invalid-chain-accepted", "VerifyLeaf accepted although %s: %s", why, desc)
				} else {
					r.Violate("C04/valid-chain-rejected", "VerifyLeaf rejected a chain the model holds valid (%v): %s", got, desc)
				}
				return
			}
			// the same question again (an attacker retries, two handshakes present the same chain): same answer
			for rep := 0; rep < r.Intn("q", 3); rep++ {
				r.Obligation(1)
				if again := store.VerifyLeaf(leaf.obj, opts); (again == nil) != (got == nil) {
					r.Violate("C04/answer-changes-on-repetition", "VerifyLeaf answered %v the first time and %v on repetition %d of the same question on the same store (model: valid=%v, %s): leaf %s (%s), presented %s, store %s",
						got, again, rep+1, want, why, leaf.name, leaf.mutation, recName(presented), recNames(stored))
					return
				}
			}
			// VerifyParent directly
			if r.Intn("q", 3) == 0 {
				child := allRecs[r.Intn("q", len(allRecs))]
				par := allRecs[r.Intn("q", len(allRecs))]
				if r.Intn("q", 2) == 0 && child.signer != nil {
					par = child.signer
				}
				if r.Intn("q", 4) == 0 {
					child = child.mutate(r, allRecs)
				}
				if child.obj == nil || par.obj == nil {
					continue
				}
				gotP := certs.VerifyParent(child.obj, par.obj)
				wantP := false
				if child.parsed && par.parsed {
					pair := (child.typ == 1 && par.typ == 2) || (child.typ == 2 && par.typ == 3) || (child.typ == 3 && par.typ == 3)
					link := child.parent == par.fp
					if child.typ == 3 {
						link = child.parent == [32]byte{}
					}
					wantP = pair && link && sigOK(child, par)
				}
				r.Obligation(1)
				if (gotP == nil) != wantP {
					r.Violate("C04/verifyparent-disagrees", "VerifyParent(%s (%s), %s) = %v, model says valid=%v", child.name, child.mutation, par.name, gotP, wantP)
					return
				}
			}
		}
	}
	r.Sample = append(r.Sample, fmt.Sprintf("roots=%d inters=%d leaves=%d instants=%d queries=%d span=%v", len(roots), len(inters), len(leaves), len(walk), nQ, time.Since(start)))
	r.Logf("queries=%d", nQ)
}

func recName(c *certRec) string {
	if c == nil {
		return "none"
	}
	if c.mutation != "" {
		return c.name + " (" + c.mutation + ")"
	}
	return c.name
}

func recNames(l []*certRec) string {
	s := "["
	for i, c := range l {
		if i > 0 {
			s += " "
		}
		s += recName(c)
	}
	return s + "]"
}

// lookAlike returns a label that a careless comparison takes for s: same letters in another case, a letter
// that Unicode case folding maps onto an ASCII one (long s, Kelvin sign), a trailing dot or blank.  (It may
// return s itself when s offers nothing to vary; the model compares bytes.)
func lookAlike(r *Run, s string) string {
	b := []rune(s)
	switch r.Intn("lookalike", 5) {
	case 0:
		for i, c := range b {
			if c >= 'a' && c <= 'z' {
				b[i] = c - 32
				if r.Intn("lookalike", 2) == 0 {
					break
				}
			}
		}
		return string(b)
	case 1:
		for i, c := range b {
			if c >= 'A' && c <= 'Z' {
				b[i] = c + 32
			}
		}
		return string(b)
	case 2:
		for i, c := range b {
			switch c {
			case 's', 'S':
				b[i] = 0x17f
				return string(b)
			case 'k', 'K':
				b[i] = 0x212a
				return string(b)
			}
		}
		return s
	case 3:
		return s + "."
	}
	return s + " "
}
