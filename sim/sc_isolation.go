package sim

import (
	"encoding/binary"
	"fmt"
	"sync"
	"time"

	"hop.computer/hop/tubes"
)

// C09 — tubes are isolated from each other and from earlier tubes with the same id.

func init() {
	Register(&Scenario{Name: "tube-isolation", Property: "C09", Fn: scIsolation, Yields: true})
}

const cellLen = 64

type tubeInst struct {
	tag      uint32
	mux      string
	id       byte
	rel      bool
	typ      tubes.TubeType
	opener   bool
	t        tubes.Tube
	created  time.Duration
	peerTag  uint32 // tag of the instance whose data this instance reads (0 = nothing read yet)
	readFrom map[uint32]int
	sentLen  map[uint64]int // unreliable: message seq -> length
	nSent    uint64
}

func makeCell(in *tubeInst, off uint64) []byte {
	c := make([]byte, cellLen)
	copy(c, "CELL")
	binary.BigEndian.PutUint32(c[4:], in.tag)
	binary.BigEndian.PutUint64(c[8:], off)
	c[16] = in.id
	if in.rel {
		c[17] = 1
	}
	c[18] = byte(in.typ)
	streamFill(c[19:], uint64(in.tag)<<32|off, 0)
	return c
}

func scIsolation(r *Run) {
	n := NewNet(r)
	defer n.Stop()
	n.Quiet = r.Tier != "trace"
	n.Describe = FrameDesc
	c := &n.Cfg
	c.Latency = time.Duration(1+r.Intn("cfg", 20)) * time.Millisecond
	faultFree := r.Intn("cfg", 6) == 0
	if !faultFree {
		c.Jitter = time.Duration(r.Intn("cfg", 60)) * time.Millisecond
		c.PDrop = r.Float("cfg") * 0.2
		c.PDup = r.Float("cfg") * 0.3
		c.PLongDel, c.LongDelay = r.Float("cfg")*0.15, time.Duration(200+r.Intn("cfg", 5000))*time.Millisecond
		c.PReplay, c.ReplayMax = r.Float("cfg")*0.15, time.Duration(200+r.Intn("cfg", 8000))*time.Millisecond
	}
	r.SetCfg("faultfree", faultFree)
	r.SetCfg("net", fmt.Sprintf("%+v", *c))
	mp := NewPairMaybeStack(r, n, 8, "C09")
	if mp == nil {
		return
	}
	if r.Intn("cfg", 3) == 0 { // concurrent Create/Accept/reap under schedule perturbation
		r.ArmYields([]string{"tubes.(*Muxer)"}, 1+r.Intn("cfg", 5), 1+r.Intn("cfg", 25), []float64{0.2, 1}[r.Intn("cfg", 2)])
		r.YieldsOn(true)
	}
	muxOf := map[string]*tubes.Muxer{"A": mp.A, "B": mp.B}
	parity := map[string]byte{"A": 0, "B": 1}

	var mu sync.Mutex
	byTag := map[uint32]*tubeInst{}
	var all []*tubeInst
	nextTag := uint32(0)
	live := map[string]map[string]bool{"A": {}, "B": {}} // mux -> "rel/id" of instances the harness holds open
	newInst := func(mux string, t tubes.Tube, opener bool) *tubeInst {
		mu.Lock()
		defer mu.Unlock()
		nextTag++
		in := &tubeInst{tag: nextTag, mux: mux, id: t.GetID(), rel: t.IsReliable(), typ: t.Type(), opener: opener, t: t,
			created: r.Now(), readFrom: map[uint32]int{}, sentLen: map[uint64]int{}}
		byTag[in.tag] = in
		all = append(all, in)
		return in
	}
	var wg sync.WaitGroup
	lastHuge := "none"
	// an unreliable tube delivers one empty message when its peer end closes (the FIN surfaces that way); any
	// other empty message is a message nobody wrote
	finsDelivered := map[string]int{} // "mux/id" of the RECEIVING side -> unreliable FIN frames the network delivered so far
	emptyReads := map[string]int{}    // "mux/id" of the READING side
	stopping := false
	if !mp.Stack {
		n.OnDeliver = func(d *Dgram, ep *Endpoint) {
			b := d.Data
			if len(b) >= 12 && b[1]&(1<<2) == 0 && b[1]&3 == 0 && b[1]&(1<<4) != 0 { // unreliable, not an initiate frame, FIN
				side := "A"
				if ep == mp.EB {
					side = "B"
				}
				mu.Lock()
				finsDelivered[fmt.Sprintf("%s/%d", side, b[0])]++
				mu.Unlock()
			}
		}
	}

	classify := func(in *tubeInst, src *tubeInst) string {
		switch {
		case src.mux == in.mux:
			return "C09/own-data-echoed"
		case src.rel != in.rel:
			return "C09/cross-reliability"
		case src.id != in.id:
			return "C09/cross-id"
		default:
			if in.rel {
				return "C09/stale-after-reuse/reliable"
			}
			return "C09/stale-after-reuse/unreliable"
		}
	}
	// bind checks one received cell/message header against the instance that read it
	bind := func(in *tubeInst, tag uint32, what string) bool {
		mu.Lock()
		defer mu.Unlock()
		src := byTag[tag]
		r.Obligation(1)
		if src == nil {
			r.Violate("C09/data-from-nowhere", "%s%d on %s (instance %d) read %s carrying unknown instance tag %d", relName(in.rel), in.id, in.mux, in.tag, what, tag)
			return false
		}
		in.readFrom[tag]++
		if src.mux == in.mux || src.rel != in.rel || src.id != in.id {
			r.Violate(classify(in, src), "%s%d on %s (instance %d) read %s written on %s%d of %s (instance %d)", relName(in.rel), in.id, in.mux, in.tag, what, relName(src.rel), src.id, src.mux, src.tag)
			return false
		}
		if in.peerTag == 0 {
			in.peerTag = tag
			// each instance's data may reach exactly one instance on the other side
			for _, o := range all {
				if o != in && o.mux == in.mux && o.peerTag == tag {
					// the same source instance feeds two instances here: the later one took over the
					// identifier while the source (peer of the earlier one) was still writing
					r.Violate(classify(in, src), "data of instance %d (%s%d of %s, created at %v) is delivered on two successive instances of %s with that identifier: %d (created at %v) and %d (created at %v)",
						tag, relName(src.rel), src.id, src.mux, src.created, in.mux, o.tag, o.created, in.tag, in.created)
					return false
				}
			}
			return true
		}
		if in.peerTag != tag {
			r.Violate(classify(in, src), "%s%d on %s (instance %d, created at %v, peer instance %d) read %s written on an EARLIER OR LATER tube with the same id: instance %d of %s created at %v",
				relName(in.rel), in.id, in.mux, in.tag, in.created, in.peerTag, what, src.tag, src.mux, src.created)
			return false
		}
		return true
	}

	stoppingNow := func() bool {
		mu.Lock()
		defer mu.Unlock()
		return stopping
	}
	reader := func(in *tubeInst) {
		defer wg.Done()
		if in.rel {
			buf := make([]byte, 8192)
			var acc []byte
			lingered, nLinger, lingerGap := 0, 0, time.Duration(0)
			if r.Intn(fmt.Sprintf("linger%d", in.tag), 3) == 0 {
				nLinger = 1 + r.Intn(fmt.Sprintf("linger%d", in.tag), 4)
				lingerGap = time.Duration(50+r.Intn(fmt.Sprintf("linger%d", in.tag), 4000)) * time.Millisecond
			}
			for {
				var k int
				var err error
				if lingered > 0 {
					// (a read on an ended tube returns at once; should it block, that is not this property's business)
					if !WithTimeout(r, 5*time.Second, func() { k, err = in.t.Read(buf) }) {
						r.Probe("late-read-on-ended-tube-blocks")
						return
					}
				} else {
					k, err = in.t.Read(buf)
				}
				acc = append(acc, buf[:k]...)
				for len(acc) >= cellLen {
					cell := acc[:cellLen]
					acc = acc[cellLen:]
					if string(cell[:4]) != "CELL" {
						r.Violate("C09/stream-garbled", "%s%d on %s: stream lost its cell framing (foreign or missing bytes)", relName(in.rel), in.id, in.mux)
						return
					}
					if !bind(in, binary.BigEndian.Uint32(cell[4:]), "a stream cell") {
						return
					}
				}
				if err != nil {
					if lingered >= nLinger {
						return
					}
					// an application that holds on to a tube that has ended and reads it again later - when the
					// tube has long been closed and reaped and other tubes carry data: it gets the error again
					// (whatever it may get, it must not be another tube's data: the cells are judged as always)
					lingered++
					r.CountFault("read-on-ended-tube-later", 1)
					time.Sleep(lingerGap)
					if stoppingNow() {
						return
					}
				}
			}
		}
		buf := make([]byte, 140000)
		for {
			k, err := in.t.Read(buf)
			if err != nil {
				return
			}
			if k == 0 {
				// the FIN of an unreliable tube surfaces as an empty message
				mu.Lock()
				emptyReads[fmt.Sprintf("%s/%d", in.mux, in.id)]++
				got, allowed, st := emptyReads[fmt.Sprintf("%s/%d", in.mux, in.id)], finsDelivered[fmt.Sprintf("%s/%d", in.mux, in.id)], stopping || mp.Stack
				mu.Unlock()
				r.Obligation(1)
				if got > allowed && !st {
					r.Violate("C09/empty-message-nobody-wrote", "unrel%d on %s read its empty message no. %d; the network has delivered only %d end-of-tube (FIN) frame(s) for unreliable tubes with that identifier and nobody writes empty messages", in.id, in.mux, got, allowed)
					return
				}
				continue
			}
			if k < cellLen || string(buf[:4]) != "CELL" {
				r.Violate("C09/fragment", "unrel%d on %s: read a %d-byte message that is not a whole written message", in.id, in.mux, k)
				return
			}
			tag := binary.BigEndian.Uint32(buf[4:])
			seq := binary.BigEndian.Uint64(buf[8:])
			if !bind(in, tag, "a message") {
				return
			}
			mu.Lock()
			src := byTag[tag]
			want, ok := src.sentLen[seq]
			mu.Unlock()
			r.Obligation(1)
			if !ok || want != k {
				r.Violate("C09/fragment", "unrel%d on %s: message seq %d of instance %d has %d bytes, %d were written (fragment or merge)", in.id, in.mux, seq, tag, k, want)
				return
			}
			exp := makeCell(src, seq)
			tail := make([]byte, k-cellLen)
			streamFill(tail, uint64(tag)<<32|seq|1<<63, 0)
			if string(buf[:cellLen]) != string(exp) || string(buf[cellLen:k]) != string(tail) {
				r.Violate("C09/message-altered", "unrel%d on %s: message seq %d of instance %d was altered", in.id, in.mux, seq, tag)
				return
			}
		}
	}
	writer := func(in *tubeInst, nUnits int, key string) {
		for i := 0; i < nUnits; i++ {
			if in.rel {
				burst := 1 + r.Intn(key, 40)
				b := []byte{}
				for j := 0; j < burst; j++ {
					b = append(b, makeCell(in, in.nSent)...)
					in.nSent++
				}
				if _, err := in.t.Write(b); err != nil {
					return
				}
			} else {
				seq := in.nSent
				in.nSent++
				tailLen, huge := r.Intn(key, 3000), false
				if r.Intn(key, 30) == 0 {
					// messages around and beyond what one frame / one datagram can carry: they are delivered
					// whole or not at all
					tailLen = []int{30000 + r.Intn(key, 5000), 65000 + r.Intn(key, 535), 65536 + r.Intn(key, 33000), 131072 + r.Intn(key, 3000)}[r.Intn(key, 4)]
					huge = true
					r.CountFault("unreliable-message-near-or-over-limits", 1)
					mu.Lock()
					lastHuge = fmt.Sprintf("%d bytes written on unrel%d of %s at %v", cellLen+tailLen, in.id, in.mux, r.Now())
					mu.Unlock()
				}
				tail := make([]byte, tailLen)
				streamFill(tail, uint64(in.tag)<<32|seq|1<<63, 0)
				msg := append(makeCell(in, seq), tail...)
				mu.Lock()
				in.sentLen[seq] = len(msg)
				mu.Unlock()
				if _, err := in.t.Write(msg); err != nil {
					if huge {
						continue // refused: fine
					}
					return
				}
			}
			if r.Intn(key, 3) == 0 {
				time.Sleep(time.Duration(r.Intn(key, 40)) * time.Millisecond)
			}
		}
	}
	// accept loops
	acceptCount := map[string]int{} // "mux/rel/id" -> number of accepts
	for _, mn := range []string{"A", "B"} {
		mn := mn
		r.Go(func() {
			for {
				t, err := muxOf[mn].Accept()
				if err != nil {
					return
				}
				in := newInst(mn, t, false)
				mu.Lock()
				acceptCount[fmt.Sprintf("%s/%v/%d", mn, in.rel, in.id)]++
				mu.Unlock()
				r.Obligation(1)
				if in.id%2 == parity[mn] {
					r.Violate("C09/accepted-tube-has-own-parity", "%s accepted %s%d, an identifier of its own parity", mn, relName(in.rel), in.id)
				}
				wg.Add(1)
				r.Go(func() { reader(in) })
				key := fmt.Sprintf("acc%d", in.tag)
				r.Go(func() {
					writer(in, r.Intn(key, 4), key)
					time.Sleep(time.Duration(r.Intn(key, 1500)) * time.Millisecond)
					in.t.Close()
				})
			}
		})
	}
	// openers: several sessions per side, far more opens than concurrently live tubes, so ids are reused
	var ow sync.WaitGroup
	for _, mn := range []string{"A", "B"} {
		nWorkers := 1 + r.Intn("cfg", 3)
		for w := 0; w < nWorkers; w++ {
			mn, w := mn, w
			ow.Add(1)
			r.Go(func() {
				defer ow.Done()
				key := fmt.Sprintf("open%s%d", mn, w)
				rounds := 1 + r.Intn(key, 8)
				for k := 0; k < rounds; k++ {
					if !r.Op(key) {
						continue
					}
					rel := r.Intn(key, 2) == 0
					typ := tubes.TubeType(1 + r.Intn(key, 7))
					var t tubes.Tube
					var err error
					if rel {
						var rt *tubes.Reliable
						rt, err = muxOf[mn].CreateReliableTube(typ)
						t = rt
					} else {
						var ut *tubes.Unreliable
						ut, err = muxOf[mn].CreateUnreliableTube(typ)
						t = ut
					}
					if err != nil {
						return
					}
					in := newInst(mn, t, true)
					lk := fmt.Sprintf("%v/%d", in.rel, in.id)
					mu.Lock()
					clash := live[mn][lk]
					live[mn][lk] = true
					mu.Unlock()
					r.Obligation(1)
					if clash {
						r.Violate("C09/id-clash", "%s: Create returned %s%d while an earlier tube with that identifier is still open", mn, relName(in.rel), in.id)
					}
					if in.id%2 != parity[mn] {
						r.Violate("C09/wrong-parity", "%s created %s%d, an identifier of the peer's parity", mn, relName(in.rel), in.id)
					}
					wg.Add(1)
					r.Go(func() { reader(in) })
					writer(in, 1+r.Intn(key, 5), key)
					time.Sleep(time.Duration(r.Intn(key, 400)) * time.Millisecond)
					mu.Lock()
					delete(live[mn], lk)
					mu.Unlock()
					WithTimeout(r, 30*time.Second, func() { in.t.Close() })
					if r.Intn(key, 2) == 0 {
						// wait for the close to complete: the identifier becomes reusable soon after
						WithTimeout(r, 10*time.Second, func() { in.t.WaitForClose() })
					}
					time.Sleep(time.Duration(r.Intn(key, 2500)) * time.Millisecond)
				}
			})
		}
	}
	// the tubes of a session are isolated from each other also in this sense: nothing an application does on
	// one tube (here: a message too long to be sent) may take the whole session down
	if !WithTimeout(r, 30*time.Minute, func() { ow.Wait() }) || !tubes.VerifMuxerRunning(mp.A) || !tubes.VerifMuxerRunning(mp.B) {
		r.NoLeakCheck = true
		if !tubes.VerifMuxerRunning(mp.A) || !tubes.VerifMuxerRunning(mp.B) {
			mu.Lock()
			what := lastHuge
			mu.Unlock()
			r.Violate("C09/session-torn-down-by-one-tube", "a muxer stopped by itself while the programs were running (A running=%v, B running=%v): every tube of the session is gone; last message near or over the limits: %s",
				tubes.VerifMuxerRunning(mp.A), tubes.VerifMuxerRunning(mp.B), what)
		} else {
			r.Probe("openers-still-busy-after-30-minutes")
		}
		mu.Lock()
		stopping = true
		mu.Unlock()
		mp.StopBoth(r, 2*time.Minute)
		return
	}
	time.Sleep(c.LongDelay + c.ReplayMax + 3*time.Second)
	mu.Lock()
	stopping = true
	mu.Unlock()
	mp.StopBoth(r, 2*time.Minute)
	wd := make(chan struct{})
	r.Go(func() { wg.Wait(); close(wd) })
	select {
	case <-wd:
	case <-time.After(time.Minute):
	}
	// accept exactly once: never more accepted instances of (id, reliability) than the peer opened
	mu.Lock()
	opened := map[string]int{}
	for _, in := range all {
		if in.opener {
			peer := "A"
			if in.mux == "A" {
				peer = "B"
			}
			opened[fmt.Sprintf("%s/%v/%d", peer, in.rel, in.id)]++
		}
	}
	for k, a := range acceptCount {
		r.Obligation(1)
		if a > opened[k] {
			r.Violate("C09/duplicate-accept/ghost", "%s: Accept returned %d tubes, the peer opened only %d with that identifier and reliability (a late or duplicated open request created a tube that nobody opened)", k, a, opened[k])
		}
	}
	nInst := len(all)
	mu.Unlock()
	r.Sample = append(r.Sample, fmt.Sprintf("instances=%d faultfree=%v", nInst, faultFree))
	r.Logf("instances=%d", nInst)
	time.Sleep(5 * time.Second)
}

func relName(rel bool) string {
	if rel {
		return "rel"
	}
	return "unrel"
}
