//go:build verif

package synctest

import "internal/synctest"

// VerifRun runs f in a new bubble without needing a *testing.T.
func VerifRun(f func()) { synctest.Run(f) }
