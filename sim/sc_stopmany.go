package sim

import (
	"fmt"
	"sync"
	"time"

	"hop.computer/hop/tubes"
)

// C16, shutdown of a muxer whose identifier space is (nearly) used up - port forwarding opens one tube per
// connection, so a busy session holds many.  One side opens 100..130 tubes of one kind (the last ones beyond the
// 128 identifiers of its parity must be refused, not waited for), the other side accepts them; then both muxers
// are stopped, in part of the runs while opens are still being attempted.  Oracles: every Create call returns,
// Stop returns within its bound, no goroutine is left behind, nothing panics or spins.

func init() {
	Register(&Scenario{Name: "stop-many-tubes", Property: "C16", Fn: scStopMany, LeakClass: "C16/goroutine-leak"})
}

func scStopMany(r *Run) {
	n := NewNet(r)
	defer n.Stop()
	n.Quiet = true
	n.Cfg.Latency = time.Duration(1+r.Intn("cfg", 10)) * time.Millisecond
	if r.Intn("cfg", 2) == 0 {
		n.Cfg.PDrop = r.Float("cfg") * 0.05
	}
	mp := NewMuxPair(r, n, 0)
	opener, acceptor, oname := mp.A, mp.B, "A"
	if r.Intn("cfg", 2) == 0 {
		opener, acceptor, oname = mp.B, mp.A, "B"
	}
	rel := r.Intn("cfg", 2) == 0
	want := []int{100, 126, 127, 128, 129, 130, 140}[r.Intn("cfg", 7)]
	r.SetCfg("opens", fmt.Sprintf("%d %s tubes by %s", want, relName(rel), oname))
	r.Go(func() {
		for {
			t, err := acceptor.Accept()
			if err != nil {
				return
			}
			_ = t
		}
	})
	var mu sync.Mutex
	opened, refused := 0, 0
	stopEarly := r.Intn("cfg", 3) == 0
	stopAfter := r.Intn("cfg", want+1)
	openDone := make(chan struct{})
	r.Go(func() {
		defer close(openDone)
		for i := 0; i < want; i++ {
			var err error
			r.Obligation(1)
			if !WithTimeout(r, 2*time.Minute, func() {
				if rel {
					_, err = opener.CreateReliableTube(tubes.TubeType(3))
				} else {
					_, err = opener.CreateUnreliableTube(tubes.TubeType(3))
				}
			}) {
				r.NoLeakCheck = true
				r.Violate("C16/create-does-not-return", "open no. %d of %d (%s tubes by %s) did not return within 2 simulated minutes; goroutines:\n  %s", i+1, want, relName(rel), oname, BlockedSummary())
				return
			}
			mu.Lock()
			if err != nil {
				refused++
			} else {
				opened++
			}
			mu.Unlock()
			if r.Intn("open", 8) == 0 {
				time.Sleep(time.Duration(r.Intn("open", 5)) * time.Millisecond)
			}
			if stopEarly && i == stopAfter {
				return
			}
		}
	})
	if !stopEarly {
		<-openDone
		time.Sleep(time.Duration(r.Intn("cfg", 3000)) * time.Millisecond)
	} else {
		select {
		case <-openDone:
		case <-time.After(time.Duration(r.Intn("cfg", 400)) * time.Millisecond):
		}
	}
	if r.Failed() {
		return
	}
	mu.Lock()
	o, rf := opened, refused
	mu.Unlock()
	if !stopEarly && o > 128 {
		r.Violate("C16/more-tubes-than-identifiers", "%d %s tubes were opened by one side; it has 128 identifiers of its parity", o, relName(rel))
	}
	for _, m := range []struct {
		name string
		m    *tubes.Muxer
	}{{"opener", opener}, {"acceptor", acceptor}} {
		r.Obligation(1)
		if !WithTimeout(r, 3*time.Minute, func() { m.m.Stop() }) {
			r.NoLeakCheck = true
			r.Violate("C16/stop-does-not-return", "%s muxer holding about %d %s tubes (%d opens refused): Stop did not return within 3 simulated minutes; goroutines:\n  %s", m.name, o, relName(rel), rf, BlockedSummary())
			return
		}
	}
	select {
	case <-openDone:
	case <-time.After(3 * time.Minute):
		r.NoLeakCheck = true
		r.Violate("C16/call-blocked-after-stop", "an open call is still blocked 3 simulated minutes after both muxers were stopped; goroutines:\n  %s", BlockedSummary())
		return
	}
	r.Sample = append(r.Sample, fmt.Sprintf("opened=%d refused=%d early=%v", o, rf, stopEarly))
	time.Sleep(5 * time.Second)
}
