package sim

import (
	"bytes"
	"errors"
	"fmt"
	"io"
	"net"
	"strings"
	"sync"
	"time"

	"hop.computer/hop/authgrants"
	"hop.computer/hop/certs"
	"hop.computer/hop/core"
	"hop.computer/hop/transport"
)

// C06 — nothing is delegated without the principal approving that exact intent.

func init() {
	Register(&Scenario{Name: "principal", Property: "C06", Fn: scPrincipal})
}

// faultConn wraps a stream connection: writes are fragmented into drawn chunk
// sizes with stalls in between, and the connection can die at a drawn byte.
type faultConn struct {
	net.Conn
	r         *Run
	key       string
	fragment  bool
	dieAfter  int // total bytes written after which the connection dies (-1 = never)
	written   int
	mu        sync.Mutex
	onWrite   func(b []byte)
	dead      bool
	closeBoth func()
}

func (f *faultConn) Write(b []byte) (int, error) {
	f.mu.Lock()
	defer f.mu.Unlock()
	if f.dead {
		return 0, io.ErrClosedPipe
	}
	total := 0
	for len(b) > 0 {
		n := len(b)
		if f.fragment && n > 1 {
			n = 1 + f.r.Intn(f.key, n)
		}
		if f.dieAfter >= 0 && f.written+n > f.dieAfter {
			n = f.dieAfter - f.written
			if n > 0 {
				k, _ := f.Conn.Write(b[:n])
				if f.onWrite != nil {
					f.onWrite(b[:k])
				}
				total += k
				f.written += k
			}
			f.dead = true
			f.r.CountFault("conn-dies-mid-stream", 1)
			if f.closeBoth != nil {
				f.closeBoth()
			}
			return total, io.ErrClosedPipe
		}
		k, err := f.Conn.Write(b[:n])
		if f.onWrite != nil && k > 0 {
			f.onWrite(b[:k])
		}
		total += k
		f.written += k
		if err != nil {
			return total, err
		}
		b = b[n:]
		if f.fragment && f.r.Intn(f.key, 4) == 0 {
			time.Sleep(time.Duration(f.r.Intn(f.key, 30)) * time.Millisecond)
		}
	}
	return total, nil
}

func intentKey(i authgrants.Intent) string {
	cert, _ := i.DelegateCert.Marshal()
	return fmt.Sprintf("%d|%d|%d|%d|%d|%d:%q|%q|%x|%q", i.GrantType, i.Reserved, i.TargetPort, i.StartTime.Unix(), i.ExpTime.Unix(),
		i.TargetSNI.Type, i.TargetSNI.Label, i.TargetUsername, cert, i.AssociatedData.CommandGrantData.Cmd)
}

func scPrincipal(r *Run) {
	// --- the delegate connection (healthy stream, fragmented writes)
	dA, dB := BufPipe()
	delegate := &faultConn{Conn: dA, r: r, key: "dfrag", fragment: r.Intn("cfg", 2) == 0, dieAfter: -1}
	princD := &faultConn{Conn: dB, r: r, key: "pfrag", fragment: r.Intn("cfg", 2) == 0, dieAfter: -1}

	var mu sync.Mutex
	order := 0
	type approval struct {
		key      string
		ok       bool
		at       int
		consumed bool
	}
	var approvals []*approval
	type forwarded struct {
		key string
		at  int
	}
	var forwards []forwarded
	stored := map[string]int{} // intents the target accepted and stored
	tick := func() int { order++; return order }

	nReq := 1 + r.Intn("cfg", 5)
	if r.Intn("cfg", 3) == 0 {
		nReq = 2 // the complete (approve/deny)^2 space is hit often
	}
	decisions := make([]bool, nReq)
	longReason := make([]bool, nReq)
	for i := range decisions {
		decisions[i] = r.Intn("decide", 2) == 0
		longReason[i] = r.Intn("decide", 5) == 0
	}
	reqNo := 0
	// the principal's approval callback (scripted user decision)
	// (pipelined runs: the delegate sends its requests without waiting for the answers, and the user takes a
	// while to decide; the request a callback invocation is about is then identified by its content)
	pipelined := nReq >= 2 && r.Intn("cfg", 4) == 0
	approvalDelay := time.Duration(0)
	if pipelined {
		approvalDelay = time.Duration(r.Intn("cfg", 1500)) * time.Millisecond
	}
	r.SetCfg("pipelined", pipelined)
	pendingIdx := map[string][]int{}
	// the user interface may crash instead of deciding (a dialog that cannot render what the delegate chose):
	// the callback panics.  A callback that crashed has approved nothing.  (Only for a later request of a
	// sequential run: that callback runs on the principal's own goroutine, where the harness can catch what
	// the code under test lets through.)
	panicAt := -1
	if !pipelined && nReq >= 2 && r.Intn("panic", 10) == 0 {
		panicAt = 1 + r.Intn("panic", nReq-1)
		r.SetCfg("callback-crashes-at-request", panicAt)
	}
	principalCrashed := false
	checkIntent := func(i authgrants.Intent, c *certs.Certificate) error {
		mu.Lock()
		idx := reqNo - 1
		if pipelined {
			idx = -1
			if q := pendingIdx[intentKey(i)]; len(q) > 0 {
				idx, pendingIdx[intentKey(i)] = q[0], q[1:]
			}
		}
		ok := idx >= 0 && idx < len(decisions) && decisions[idx]
		mu.Unlock()
		if approvalDelay > 0 {
			time.Sleep(approvalDelay) // the user thinks; the verdict is about what was shown when the question was asked
		}
		mu.Lock()
		defer mu.Unlock()
		if idx == panicAt && idx >= 0 {
			approvals = append(approvals, &approval{key: intentKey(i), ok: false, at: tick()})
			r.Logf("approval callback #%d crashes", idx)
			r.CountFault("approval-callback-panics", 1)
			mu.Unlock()
			defer mu.Lock() // (keeps the deferred Unlock balanced while the panic unwinds)
			panic("sim: the approval dialog crashed")
		}
		approvals = append(approvals, &approval{key: intentKey(i), ok: ok, at: tick()})
		r.Logf("approval callback #%d -> %v", idx, ok)
		if ok {
			return nil
		}
		if idx >= 0 && idx < len(longReason) && longReason[idx] {
			if idx%2 == 1 {
				// not ASCII: at most 255 characters, but more than 255 bytes
				return errors.New("abgelehnt: " + strings.Repeat("né", 60+r.Intn("reason", 60)))
			}
			return errors.New("user declined: " + strings.Repeat("no ", 100))
		}
		return errors.New("user declined")
	}

	// --- target side
	targetMode := r.Intn("cfg", 7) // 0/1 real target instance, 2 scripted confirm, 3 scripted deny, 4 scripted wrong type/garbage, 5 scripted close, 6 scripted: per-request verdict, some answers late
	slowTarget := time.Duration(0) // the longest a scripted answer may take in this run
	if targetMode == 6 {
		slowTarget = 70 * time.Second
	}
	targetCheckOK := r.Intn("cfg", 4) != 0
	targetStoreOK := r.Intn("cfg", 4) != 0
	setupMode := r.Intn("cfg", 8) // 0..4 normal, 5 fails before the callback, 6 fails after the callback, 7 connection dies later
	r.SetCfg("target", targetMode)
	r.SetCfg("setup", setupMode)
	r.SetCfg("decisions", fmt.Sprint(decisions))
	targetCert := SelfSigned(newX25519().Public, certs.DNSName("target.sim"))
	// in a third of the runs the verification callback runs where hopclient puts it: inside a REAL transport
	// handshake with the target (VerifyConfig.AddVerifyCallback), under a drawn verification policy
	var realNet *Net
	var realSrv *TServer
	realPolicy := 0
	if r.Intn("cfg", 3) == 0 {
		realNet = NewNet(r)
		defer realNet.Stop()
		realNet.Quiet = true
		realSrv = StartServer(r, realNet, ServerOpts{HSTimeout: 3 * time.Second, Name: "target.sim"})
		defer realSrv.Srv.Close()
		targetCert = realSrv.Leaf
		realPolicy = r.Intn("cfg", 3) // 0 store+name, 1 store, 2 InsecureSkipVerify
		r.SetCfg("real-target-handshake-policy", []string{"store+name", "store", "skip-verify"}[realPolicy])
		r.Go(func() { // (connections the target's transport accepts are not used further)
			for {
				if _, err := realSrv.Srv.AcceptTimeout(24 * time.Hour); err != nil {
					return
				}
			}
		})
	}
	nDial := 0
	var targetWG sync.WaitGroup
	var pipes []net.Conn
	setUp := func(url core.URL, verify authgrants.AdditionalVerifyCallback) (net.Conn, error) {
		if setupMode == 5 {
			r.CountFault("target-setup-fails-before-verification", 1)
			return nil, errors.New("dial failed: no route to target")
		}
		// like hopclient: the verification callback runs inside connection establishment
		if realSrv != nil {
			nDial++
			vc := transport.VerifyConfig{Store: realSrv.PKI.Store(), Name: realSrv.Name, AddVerifyCallback: transport.AdditionalVerifyCallback(verify)}
			switch realPolicy {
			case 1:
				vc.Name = certs.Name{}
			case 2:
				vc = transport.VerifyConfig{InsecureSkipVerify: true, AddVerifyCallback: transport.AdditionalVerifyCallback(verify)}
			}
			tc := NewTClient(r, realNet, realSrv, ClientOpts{Addr: Addr(byte(40+nDial), 4400+nDial), HSTimeout: 3 * time.Second,
				Mutate: func(cfg *transport.ClientConfig) { cfg.Verify = vc }})
			herr := tc.C.Handshake()
			tc.C.Close()
			r.CountFault("verification-inside-real-handshake", 1)
			if herr != nil {
				return nil, fmt.Errorf("handshake aborted: %w", herr)
			}
		} else if err := verify(targetCert); err != nil {
			return nil, fmt.Errorf("handshake aborted: %w", err)
		}
		if setupMode == 6 {
			r.CountFault("target-setup-fails-after-verification", 1)
			return nil, errors.New("handshake timed out")
		}
		tA, tB := BufPipe()
		mu.Lock()
		pipes = append(pipes, tA, tB)
		mu.Unlock()
		pc := &faultConn{Conn: tA, r: r, key: "tfrag", fragment: r.Intn("cfg", 2) == 0, dieAfter: -1}
		if setupMode == 7 {
			pc.dieAfter = r.Intn("cfg", 900)
			pc.closeBoth = func() { tA.Close(); tB.Close() }
		}
		// everything the principal writes towards the target is recorded and decoded
		var rec bytes.Buffer
		pc.onWrite = func(b []byte) { rec.Write(b) }
		targetWG.Add(1)
		r.Go(func() {
			defer targetWG.Done()
			defer tB.Close()
			switch {
			case targetMode <= 1:
				authgrants.StartTargetInstance(tB, targetCert,
					func(i authgrants.Intent, c *certs.Certificate) error {
						mu.Lock()
						forwards = append(forwards, forwarded{intentKey(i), tick()})
						mu.Unlock()
						if !targetCheckOK {
							return errors.New("target policy refuses")
						}
						return nil
					},
					func(i *authgrants.Intent) error {
						if !targetStoreOK {
							return errors.New("target could not store the grant")
						}
						mu.Lock()
						stored[intentKey(*i)]++
						mu.Unlock()
						return nil
					})
			default:
				for {
					in, err := authgrants.ReadIntentCommunication(tB)
					if err != nil {
						return
					}
					mu.Lock()
					forwards = append(forwards, forwarded{intentKey(in), tick()})
					mu.Unlock()
					switch targetMode {
					case 6:
						// a target that takes its time (seconds to more than a minute) and decides per request
						if r.Intn("tgt", 2) == 0 {
							time.Sleep([]time.Duration{time.Second, 15 * time.Second, 25 * time.Second, 45 * time.Second, 65 * time.Second}[r.Intn("tgt", 5)])
							r.CountFault("target-answers-late", 1)
						}
						if r.Intn("tgt", 2) == 0 {
							mu.Lock()
							stored[intentKey(in)]++
							mu.Unlock()
							authgrants.WriteIntentConfirmation(tB)
						} else {
							authgrants.WriteIntentDenied(tB, "scripted target denies")
						}
					case 2:
						mu.Lock()
						stored[intentKey(in)]++
						mu.Unlock()
						authgrants.WriteIntentConfirmation(tB)
					case 3:
						authgrants.WriteIntentDenied(tB, "scripted target denies")
					case 4:
						if r.Intn("tgt", 2) == 0 {
							tB.Write([]byte{1, 2, 3}) // wrong message type
						} else {
							g := r.Bytes("tgt", 1+r.Intn("tgt", 40))
							if g[0] == byte(authgrants.IntentConfirmation) {
								g[0] = 0x7f // garbage must not happen to be a confirmation
							}
							tB.Write(g)
						}
						r.CountFault("target-sends-garbage", 1)
						// (a target that leaves a message unfinished and stalls keeps the request
						// legitimately in flight; here the stream ends after the garbage)
						return
					default:
						r.CountFault("target-closes", 1)
						return
					}
				}
			}
		})
		return pc, nil
	}
	// --- the real principal
	prDone := make(chan struct{})
	r.Go(func() {
		defer close(prDone)
		defer func() {
			if e := recover(); e != nil {
				if panicAt < 0 || fmt.Sprint(e) != "sim: the approval dialog crashed" {
					panic(e) // not ours
				}
				// the principal's process died with its user interface: its connections are gone
				mu.Lock()
				principalCrashed = true
				mu.Unlock()
				r.Logf("principal instance ended by the panic of its approval callback")
				princD.Close()
			}
		}()
		authgrants.StartPrincipalInstance(princD, checkIntent, setUp)
	})
	// --- the scripted delegate
	answers := make(chan authgrants.AgMessage, 64)
	strays := make(chan string, 8)
	r.Go(func() {
		for {
			m, err := authgrants.ReadConfOrDenial(delegate)
			if err != nil {
				if !errors.Is(err, io.EOF) && !errors.Is(err, io.ErrClosedPipe) {
					strays <- err.Error()
				}
				return
			}
			answers <- m
		}
	})
	delegateKey := newX25519()
	delegateCert := SelfSigned(delegateKey.Public, certs.RawStringName("delegate"))
	sameTarget := r.Intn("cfg", 3) != 0
	mkIntent := func(i int) authgrants.Intent {
		in := authgrants.Intent{GrantType: authgrants.Command, TargetPort: 77, StartTime: time.Now(), ExpTime: time.Now().Add(time.Hour),
			TargetSNI: certs.DNSName("target.sim"), TargetUsername: "user", DelegateCert: *delegateCert}
		in.AssociatedData.CommandGrantData.Cmd = fmt.Sprintf("cmd-%d-%x", i, r.Bytes("cmd", 4))
		switch r.Intn("req", 6) {
		case 0:
			in.GrantType = authgrants.Shell
			in.AssociatedData.CommandGrantData.Cmd = ""
		case 1: // framing limits
			in.AssociatedData.CommandGrantData.Cmd = strings.Repeat("x", []int{0, 1, 255}[r.Intn("req", 3)])
		case 2:
			in.TargetUsername = strings.Repeat("u", []int{0, 1, 255}[r.Intn("req", 3)])
		}
		if !sameTarget && i > 0 && r.Intn("req", 2) == 0 {
			in.TargetSNI = certs.DNSName("other-target.sim")
		}
		return in
	}
	seqN := nReq
	if pipelined {
		seqN = 0
		ins := make([]authgrants.Intent, nReq)
		mu.Lock()
		for i := range ins {
			ins[i] = mkIntent(i)
			pendingIdx[intentKey(ins[i])] = append(pendingIdx[intentKey(ins[i])], i)
		}
		mu.Unlock()
		sent := 0
		for i := range ins {
			r.Logf("delegate sends request %d (%s) without waiting", i, ins[i].AssociatedData.CommandGrantData.Cmd)
			if err := authgrants.WriteIntentRequest(delegate, ins[i]); err != nil {
				r.Logf("delegate write failed: %v", err)
				break
			}
			sent++
			if r.Intn("pipe", 3) == 0 {
				time.Sleep(time.Duration(r.Intn("pipe", 300)) * time.Millisecond)
			}
		}
		var got []authgrants.AgMessage
		window := time.After(2*time.Minute + time.Duration(nReq)*slowTarget)
	collectAll:
		for {
			select {
			case m := <-answers:
				got = append(got, m)
				if len(got) >= sent {
					window = time.After(3 * time.Second) // quiet period: one answer too many would show up now
				}
			case st := <-strays:
				r.Violate("C06/answer-misframed", "pipelined requests: the delegate's stream carries bytes that are not a well-framed answer (%s)", st)
				break collectAll
			case <-window:
				break collectAll
			}
		}
		r.Obligation(1)
		if !r.Failed() && len(got) != sent {
			r.Violate(fmt.Sprintf("C06/answers-per-request/%d", min(len(got)/max(sent, 1), 2)), "%d pipelined requests (decisions %v, target mode %d, setup mode %d): the delegate received %d answers", sent, decisions, targetMode, setupMode, len(got))
		}
		for j := 0; j < len(got) && j < sent && !r.Failed(); j++ {
			if got[j].MsgType == authgrants.IntentConfirmation {
				mu.Lock()
				nst := stored[intentKey(ins[j])]
				if nst > 0 {
					stored[intentKey(ins[j])]--
				}
				mu.Unlock()
				r.Obligation(1)
				if nst == 0 {
					r.Violate("C06/confirmation-without-stored-grant", "pipelined request %d was confirmed to the delegate although the target never accepted and stored that intent", j)
				}
			}
		}
	}
	for i := 0; i < seqN; i++ {
		in := mkIntent(i)
		mu.Lock()
		reqNo = i + 1
		mu.Unlock()
		r.Logf("delegate sends request %d (%s)", i, in.AssociatedData.CommandGrantData.Cmd)
		if err := authgrants.WriteIntentRequest(delegate, in); err != nil {
			r.Logf("delegate write failed: %v", err)
			break
		}
		// exactly one well-framed answer per request
		got := 0
		var first authgrants.AgMessage
		window := time.After(30*time.Second + slowTarget)
	collect:
		for {
			select {
			case m := <-answers:
				got++
				if got == 1 {
					first = m
					window = time.After(2 * time.Second) // quiet period: a second answer would show up now
				}
			case s := <-strays:
				r.Violate("C06/answer-misframed", "request %d: the delegate's stream carries bytes that are not a well-framed answer (%s)", i, s)
				break collect
			case <-window:
				break collect
			}
		}
		r.Obligation(1)
		if r.Failed() {
			break
		}
		mu.Lock()
		crashed := principalCrashed
		mu.Unlock()
		if crashed && got == 0 {
			r.Logf("request %d: no answer, the principal crashed", i)
			break // (a dead principal answers nothing; what it forwarded before it died is judged below)
		}
		if got != 1 {
			r.Violate(fmt.Sprintf("C06/answers-per-request/%d", min(got, 2)), "request %d (principal decision approve=%v, target mode %d, setup mode %d): the delegate received %d answers instead of exactly one", i, decisions[i], targetMode, setupMode, got)
			break
		}
		// (3) a confirmation only if the target accepted and stored the grant
		if first.MsgType == authgrants.IntentConfirmation {
			mu.Lock()
			n := stored[intentKey(in)]
			if n > 0 {
				stored[intentKey(in)]--
			}
			mu.Unlock()
			r.Obligation(1)
			if n == 0 {
				r.Violate("C06/confirmation-without-stored-grant", "request %d was confirmed to the delegate although the target never accepted and stored that intent", i)
				break
			}
		}
		r.Logf("request %d answered: type %d", i, first.MsgType)
	}
	delegate.Close()
	select {
	case <-prDone:
	case <-time.After(time.Minute):
		r.Logf("principal instance still running one simulated minute after the delegate closed")
	}
	dB.Close()
	mu.Lock()
	for _, p := range pipes {
		p.Close()
	}
	mu.Unlock()
	targetWG.Wait()
	// (1) every forwarded intent was approved before, field for field, and each approval is used once
	mu.Lock()
	for _, f := range forwards {
		r.Obligation(1)
		var use *approval
		for _, a := range approvals {
			if a.ok && !a.consumed && a.at < f.at && a.key == f.key {
				use = a
				break
			}
		}
		if use == nil {
			why := "the approval callback never accepted this intent"
			for _, a := range approvals {
				if a.key == f.key && !a.ok {
					why = "the approval callback DENIED this intent"
				} else if a.key == f.key && a.ok && a.consumed {
					why = "its one approval had already been used by an earlier forward"
				}
			}
			r.Violate("C06/forwarded-without-approval", "an intent reached the target connection although %s (decisions %v, target mode %d)", why, decisions, targetMode)
			break
		}
		use.consumed = true
	}
	mu.Unlock()
	r.Sample = append(r.Sample, fmt.Sprintf("requests=%d decisions=%v target=%d setup=%d forwards=%d", nReq, decisions, targetMode, setupMode, len(forwards)))
}
