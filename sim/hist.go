package sim

import "time"

// History records invoke/return events of API operations with a global event
// sequence number.  It is written from the goroutines that call the system under
// test, so it uses only a preallocated array from norace functions: no lock, no
// atomic, no allocation - nothing that would create a happens-before edge and
// hide a data race from the race detector (single P, cooperative scheduling
// makes the plain accesses safe).
type History struct {
	ev  [8192]HistEv
	n   int
	seq int64
}

// histEpoch is a fixed instant before every bubble's start (the fake clock starts at 2000-01-01 UTC).
var histEpoch = time.Date(1999, 1, 1, 0, 0, 0, 0, time.UTC)

// HistEv is one operation.
type HistEv struct {
	G     int
	Op    int
	Arg   int64
	Call  int64
	Ret   int64 // 0 = never returned
	Out   int64
	Err   int
	At    int64 // simulated time of the invocation (ns since the first invocation's bubble epoch)
	RetAt int64 // simulated time of the return
}

// Invoke records the invocation of op by goroutine g and returns the event id.
//
//go:norace
func (h *History) Invoke(g, op int, arg int64) int {
	if h.n >= len(h.ev) {
		return -1
	}
	h.seq++
	id := h.n
	h.n++
	h.ev[id] = HistEv{G: g, Op: op, Arg: arg, Call: h.seq, At: int64(time.Since(histEpoch))}
	return id
}

// Return records the result of operation id.
//
//go:norace
func (h *History) Return(id int, out int64, errClass int) {
	if id < 0 {
		return
	}
	h.seq++
	h.ev[id].Ret = h.seq
	h.ev[id].RetAt = int64(time.Since(histEpoch))
	h.ev[id].Out = out
	h.ev[id].Err = errClass
}

// Events returns the recorded operations (call after the workers finished).
func (h *History) Events() []HistEv { return h.ev[:h.n] }

// Error classes used in histories.
const (
	ErrNone = iota
	ErrEOF
	ErrTimeout
	ErrCancelled
	ErrOther
	ErrBufOverflow
	ErrClosedConn
)
