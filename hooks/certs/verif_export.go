//go:build verif

package certs

import "time"

// VerifIssue exposes the internal issuing routine so that the simulation can
// build chains with arbitrary type pairings (an intermediate issued by an
// intermediate, a leaf issued by a root, ...) - material an attacker who holds
// a CA key could produce.  File added by -overlay; not part of the repository.
func VerifIssue(parent *Certificate, child *Identity, t CertificateType, at time.Time, d time.Duration) (*Certificate, error) {
	return issue(parent, child, t, at, d)
}

// VerifIssueWindow signs a child with an arbitrary validity window (issue insists on a window nested in
// the parent's; the holder of a CA key is not bound by that).  The signing itself is the real routine.
func VerifIssueWindow(parent *Certificate, child *Identity, t CertificateType, from, to time.Time) (*Certificate, error) {
	p := *parent
	p.IssuedAt, p.ExpiresAt = from, to
	return issue(&p, child, t, from, to.Sub(from))
}

// VerifIssueForged signs a child with signer's key while the child NAMES namedParent as its parent (its
// fingerprint goes into the Parent field): what somebody with a key of their own produces in order to hang a
// certificate under a trusted one.  The signing itself is the real routine.
func VerifIssueForged(signer, namedParent *Certificate, child *Identity, t CertificateType, from, to time.Time) (*Certificate, error) {
	p := *signer
	p.Fingerprint = namedParent.Fingerprint
	p.IssuedAt, p.ExpiresAt = from, to
	return issue(&p, child, t, from, to.Sub(from))
}

// VerifSetKey attaches a signing key to a certificate of any type.
func VerifSetKey(c *Certificate, private *[KeyLen]byte) { c.privateKey = private }
