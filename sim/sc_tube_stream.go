package sim

import (
	"encoding/binary"
	"errors"
	"fmt"
	"io"
	"net"
	"sync"
	"time"

	"hop.computer/hop/tubes"
)

// C08 — reliable tubes deliver the written byte stream in order, intact and complete.

func init() {
	Register(&Scenario{Name: "tube-stream", Property: "C08", Fn: scTubeStream, Yields: true})
}

// streamFill writes the canonical content of stream `salt` at offset off into b.
func streamFill(b []byte, salt uint64, off int64) {
	for i := range b {
		p := off + int64(i)
		c := splitmix(salt ^ uint64(p>>3)*0x9E3779B97F4A7C15)
		b[i] = byte(c >> (8 * uint(p&7)))
	}
}

// streamCheck compares b with the canonical content at off; returns the index of the first mismatch or -1.
func streamCheck(b []byte, salt uint64, off int64) int {
	for i := range b {
		p := off + int64(i)
		c := splitmix(salt ^ uint64(p>>3)*0x9E3779B97F4A7C15)
		if b[i] != byte(c>>(8*uint(p&7))) {
			return i
		}
	}
	return -1
}

// MuxPair is two real muxers joined by the simulated network.
type MuxPair struct {
	N        *Net
	EA, EB   *Endpoint
	A, B     *tubes.Muxer
	AddrA    *net.UDPAddr
	AddrB    *net.UDPAddr
	stopOnce sync.Once
	downOnce sync.Once
	Stack    bool   // the muxers run on a real transport session (frames are not visible on the wire)
	after    func() // tears down what lies under the muxers (stack pairs)
}

// NewMuxPair creates a server-role muxer A and a client-role muxer B.
func NewMuxPair(r *Run, n *Net, timeout time.Duration) *MuxPair {
	p := &MuxPair{N: n, AddrA: Addr(1, 1), AddrB: Addr(2, 1)}
	p.EA = n.Listen("muxA", p.AddrA, p.AddrB)
	p.EB = n.Listen("muxB", p.AddrB, p.AddrA)
	p.A = tubes.Server(p.EA, &tubes.Config{Timeout: timeout, Log: NewLogEntry()})
	p.B = tubes.Client(p.EB, &tubes.Config{Timeout: timeout, Log: NewLogEntry()})
	return p
}

// NewStackPair is NewMuxPair over the REAL transport: a transport server and client on the simulated
// network complete a handshake (the network is still faithful at that point), and the muxers run on the
// server's Handle and on the Client.  Everything the network does to the datagrams afterwards meets the
// transport first (authentication, replay window, peer address) and only then the tubes.
func NewStackPair(r *Run, n *Net, prop string) *MuxPair {
	hidden := r.Intn("stack", 3) == 0
	srv := StartServer(r, n, ServerOpts{Hidden: hidden, HSTimeout: 3 * time.Second})
	reg := NewHandleRegistry(r, srv.Srv)
	tc := NewTClient(r, n, srv, ClientOpts{Hidden: hidden, HSTimeout: 3 * time.Second})
	if err := tc.C.Handshake(); err != nil {
		r.Violate(prop+"/nofault/stack-handshake-failed", "%v", err)
		return nil
	}
	h := reg.For(tc.C, 5*time.Second)
	if h == nil {
		r.Violate(prop+"/nofault/stack-accept-failed", "no handle")
		return nil
	}
	p := &MuxPair{N: n, AddrA: srv.Addr, AddrB: tc.Addr, EA: srv.EP, EB: tc.EP, Stack: true}
	p.A = tubes.Server(h, &tubes.Config{Log: NewLogEntry()})
	p.B = tubes.Client(tc.C, &tubes.Config{Log: NewLogEntry()})
	p.after = func() {
		tc.C.Close()
		srv.Srv.Close()
	}
	return p
}

// NewPairMaybeStack returns a stack pair in one run out of oneIn (handshake on a momentarily faithful
// network, whatever faults the scenario has configured already), a plain pair otherwise.
func NewPairMaybeStack(r *Run, n *Net, oneIn int, class string) *MuxPair { // class = property id for violation classes
	if r.Intn("stack", oneIn) != 0 {
		r.SetCfg("stack", false)
		return NewMuxPair(r, n, 0)
	}
	r.SetCfg("stack", true)
	saved := n.Cfg
	n.Cfg = NetCfg{Latency: saved.Latency}
	mp := NewStackPair(r, n, class)
	n.Cfg = saved
	if mp != nil {
		r.Probe("muxers-on-real-transport")
	}
	return mp
}

// Teardown closes what lies under the muxers of a stack pair (idempotent; nothing for a plain pair).
func (p *MuxPair) Teardown(r *Run) {
	p.downOnce.Do(func() {
		if p.after != nil {
			WithTimeout(r, time.Minute, p.after)
			time.Sleep(time.Second)
		}
	})
}

// StopBoth stops both muxers concurrently and reports whether both returned within d.
func (p *MuxPair) StopBoth(r *Run, d time.Duration) bool {
	ok := true
	p.stopOnce.Do(func() {
		var wg sync.WaitGroup
		wg.Add(2)
		done := make(chan struct{})
		go func() { defer wg.Done(); p.A.Stop() }()
		go func() { defer wg.Done(); p.B.Stop() }()
		r.Go(func() { wg.Wait(); close(done) })
		t := time.NewTimer(d)
		defer t.Stop()
		select {
		case <-done:
		case <-t.C:
			ok = false
		}
		p.Teardown(r)
	})
	return ok
}

type streamEnd struct {
	name    string
	salt    uint64
	total   int64 // bytes the writer will write
	closes  bool  // writer closes after writing
	written int64
	closed  bool // writer's Close returned
	read    int64
	eof     bool
	rerr    error
	done    chan struct{}
	wt      tubes.Tube // the writing end
	rt      tubes.Tube // the reading end
	// acknowledgement runs seen on the wire towards the writing and the reading end (see gaveUp)
	dupRuns      func() (int, int)
	whiteBoxOnly bool
}

// gaveUp: the listed finding D19 — the sender of one end of the tube counted more than 100 duplicate
// acknowledgements in a row and tore the tube down.
func (e *streamEnd) gaveUp() string {
	hitW := e.wt != nil && tubes.VerifDupAckLimitHit(e.wt)
	hitR := e.rt != nil && tubes.VerifDupAckLimitHit(e.rt)
	if !hitW && !hitR {
		return ""
	}
	if !e.whiteBoxOnly && e.dupRuns != nil {
		// the finding is about more than 100 duplicates IN A ROW; a sender whose counter says so although the
		// wire never carried such a run is something else
		runW, runR := e.dupRuns()
		if !(hitW && runW > 100) && !(hitR && runR > 100) {
			return ""
		}
	}
	return "/sender-gave-up-after-100-duplicate-acks"
}

func scTubeStream(r *Run) {
	n := NewNet(r)
	defer n.Stop()
	n.Quiet = r.Tier != "trace"
	n.Describe = FrameDesc
	faultFree := r.Intn("cfg", 6) == 0
	nTubes := 1 + r.Intn("cfg", 3)
	r.SetCfg("faultfree", faultFree)
	r.SetCfg("tubes", nTubes)
	// one run in six has the whole stack: the muxers run on a real transport session
	stack := r.Intn("stack", 6) == 0
	r.SetCfg("stack", stack)
	var mp *MuxPair
	if stack {
		if mp = NewStackPair(r, n, "C08"); mp == nil {
			return
		}
		r.Probe("muxers-on-real-transport")
	} else {
		mp = NewMuxPair(r, n, 0)
	}

	// schedule perturbation inside the tube code in a third of the runs (retransmission loop, window handling,
	// acknowledgement processing run in different goroutines), and a slow socket under the muxers in a quarter
	if r.Intn("sched", 3) == 0 {
		fns := []string{"tubes.(*Reliable).send", "tubes.(*Reliable)", "tubes.(*sender)", "tubes.(*receiver)", "tubes.(*Muxer)", "tubes."}
		r.ArmYields([]string{fns[r.Intn("sched", len(fns))]}, 1+r.Intn("sched", 6), 1+r.Intn("sched", 60), []float64{0.02, 0.1, 0.5}[r.Intn("sched", 3)])
		r.YieldsOn(true)
	}
	stallUntil := time.Duration(0) // socket stalls are faults like the others: they stop, and the liveness bound starts then
	if r.Intn("sched", 4) == 0 {
		pStall := 0.02 + 0.2*r.Float("sched")
		stallUntil = time.Duration(5+r.Intn("sched", 40)) * time.Second
		for _, ep := range []*Endpoint{mp.EA, mp.EB} {
			ep := ep
			ep.WriteStall = func() time.Duration {
				if r.Now() >= stallUntil || !r.Fault("socket-write-stall", ep.Name, pStall) {
					return 0
				}
				return time.Duration(1+r.Intn("stall:"+ep.Name, 100)) * time.Millisecond
			}
		}
	}

	c := &n.Cfg
	c.Latency = time.Duration(1+r.Intn("cfg", 40)) * time.Millisecond
	faultsFor := time.Duration(0)
	var outages [][2]time.Duration
	if !faultFree {
		c.Jitter = time.Duration(r.Intn("cfg", 80)) * time.Millisecond
		pick := func(max float64) float64 {
			if r.Intn("cfg", 3) == 0 {
				return 0
			}
			return r.Float("cfg") * max
		}
		c.PDrop, c.PDup = pick(0.6), pick(0.4)
		c.PLongDel, c.LongDelay = pick(0.1), time.Duration(1+r.Intn("cfg", 3000))*time.Millisecond
		c.PBurst, c.BurstLen = pick(0.05), 1+r.Intn("cfg", 30)
		faultsFor = time.Duration(1+r.Intn("cfg", 20)) * time.Second
		// total outages of a drawn length followed by recovery
		nOut := r.Intn("cfg", 3)
		at := time.Duration(r.Intn("cfg", 3000)) * time.Millisecond
		for i := 0; i < nOut; i++ {
			var l time.Duration
			switch r.Intn("cfg", 4) {
			case 0:
				l = time.Duration(100+r.Intn("cfg", 900)) * time.Millisecond
			case 1:
				l = time.Duration(1+r.Intn("cfg", 15)) * time.Second
			case 2:
				l = time.Duration(15+r.Intn("cfg", 60)) * time.Second
			default:
				l = time.Duration(1+r.Intn("cfg", 10)) * time.Minute
			}
			if !r.Fault("outage", fmt.Sprint(i), 1) {
				continue
			}
			outages = append(outages, [2]time.Duration{at, at + l})
			at += l + time.Duration(r.Intn("cfg", 5000))*time.Millisecond
		}
		if at > faultsFor {
			faultsFor = at
		}
		c.FaultsUntil = faultsFor
		oneWay := r.Intn("cfg", 4) == 0
		n.Blocked = func(src, dst *net.UDPAddr, now time.Duration) bool {
			for _, o := range outages {
				if now >= o[0] && now < o[1] {
					if oneWay && src.Port == mp.AddrA.Port && src.IP.Equal(mp.AddrA.IP) {
						return false
					}
					return true
				}
			}
			return false
		}
		r.SetCfg("net", fmt.Sprintf("%+v outages=%v oneway=%v", *c, outages, oneWay))
	}

	var ends []*streamEnd
	var wg sync.WaitGroup
	type pair struct {
		a, b     net.Conn
		epA, epB *Endpoint // the endpoints under the muxers of a and b
	}
	// an independent count of what the listed finding D19 is about: acknowledgements that repeat the highest
	// number seen so far, in a row, per receiving endpoint and tube (plain pairs only: over a real transport
	// the frames are encrypted)
	type dupKey struct {
		ep *Endpoint
		id byte
	}
	type dupState struct {
		cur      uint32
		seen     bool
		run, max int
	}
	dups := map[dupKey]*dupState{}
	if !stack {
		n.OnDeliver = func(d *Dgram, ep *Endpoint) {
			b := d.Data
			if len(b) < 12 || b[1]&(1<<2) == 0 || b[1]&3 != 0 { // reliable, not an initiate frame
				return
			}
			k := dupKey{ep, b[0]}
			st := dups[k]
			if st == nil {
				st = &dupState{}
				dups[k] = st
			}
			ack := binary.BigEndian.Uint32(b[4:8])
			switch {
			case !st.seen || int32(ack-st.cur) > 0:
				st.cur, st.seen, st.run = ack, true, 0
			case ack == st.cur:
				st.run++
				if st.run > st.max {
					st.max = st.run
				}
			}
		}
	}
	dupRun := func(ep *Endpoint, t tubes.Tube) int {
		if st := dups[dupKey{ep, t.GetID()}]; st != nil {
			return st.max
		}
		return 0
	}
	var pairs []pair
	// accept loop on both sides
	accepted := make(chan tubes.Tube, 16)
	for _, m := range []*tubes.Muxer{mp.A, mp.B} {
		m := m
		r.Go(func() {
			for {
				t, err := m.Accept()
				if err != nil {
					return
				}
				accepted <- t
			}
		})
	}
	for i := 0; i < nTubes; i++ {
		opener, who := mp.A, "A"
		if r.Intn("cfg", 2) == 0 {
			opener, who = mp.B, "B"
		}
		t, err := opener.CreateReliableTube(tubes.TubeType(1 + i))
		if err != nil {
			r.Violate("C08/create-failed", "CreateReliableTube failed on a running muxer: %v", err)
			return
		}
		var peer tubes.Tube
		select {
		case peer = <-accepted:
		case <-time.After(20*time.Minute + faultsFor):
			// the REQ may be lost for as long as the faults last; after that it must get through
			r.Violate("C08/open-never-completes", "tube %d opened by %s was not offered to the peer's Accept within 20 simulated minutes after the faults stopped", t.GetID(), who)
			mp.StopBoth(r, time.Minute)
			return
		}
		if peer.GetID() != t.GetID() || !peer.IsReliable() {
			r.Violate("C08/accept-mismatch", "opened reliable tube %d, peer accepted tube %d reliable=%v", t.GetID(), peer.GetID(), peer.IsReliable())
		}
		epT, epP := mp.EA, mp.EB
		if who == "B" {
			epT, epP = mp.EB, mp.EA
		}
		pairs = append(pairs, pair{t, peer, epT, epP})
		// a long-lived tube: the sequence space of both ends is moved close to (or across) the 32-bit wrap
		// of the frame numbers, or to another large value, before any data flows
		if r.Intn("seq", 5) == 0 {
			var start uint32
			switch r.Intn("seq", 4) {
			case 0, 1:
				start = uint32(1<<32 - uint64(1+r.Intn("seq", 3000)))
			case 2:
				start = uint32(1<<31 - uint64(r.Intn("seq", 3000)))
			default:
				start = uint32(2 + r.U64("seq")%(1<<32-10))
			}
			up := false
			for w := 0; w < 400 && !up; w++ {
				up = tubes.VerifState(t) == "initiated" && tubes.VerifState(peer) == "initiated"
				if !up {
					time.Sleep(time.Duration(50+10*w) * time.Millisecond)
				}
			}
			if up && tubes.VerifShiftSeq(t, start) {
				if tubes.VerifShiftSeq(peer, start) {
					r.CountFault("sequence-space-shifted", 1)
					r.Logf("tube %d: sequence space of both ends moved to %d", t.GetID(), start)
				} else {
					r.Violate("C08/nofault/harness", "sequence shift applied to one end only")
					return
				}
			} else {
				r.Probe("sequence-shift-skipped")
			}
		}
	}

	for i, p := range pairs {
		// An end's Close cancels that end's own pending reads (documented), so an end
		// closes only when its writer is done and its reader has everything the
		// peer will write; end-of-stream is judged at the end that never closes.
		mode := r.Intn("cfg", 3) // 0 none, 1 a closes, 2 b closes
		var closerWG sync.WaitGroup
		var closer net.Conn
		if mode == 1 {
			closer = p.a
		} else if mode == 2 {
			closer = p.b
		}
		for dir := 0; dir < 2; dir++ {
			w, rd := p.a, p.b
			if dir == 1 {
				w, rd = p.b, p.a
			}
			e := &streamEnd{name: fmt.Sprintf("tube%d.dir%d", i, dir), salt: r.U64("salt"), done: make(chan struct{})}
			e.wt, _ = w.(tubes.Tube)
			e.rt, _ = rd.(tubes.Tube)
			epW, epR := p.epA, p.epB
			if dir == 1 {
				epW, epR = p.epB, p.epA
			}
			e.dupRuns = func() (int, int) { return dupRun(epW, e.wt), dupRun(epR, e.rt) }
			e.whiteBoxOnly = stack
			switch r.Intn("cfg", 8) {
			case 0:
				e.total = 0
			case 1:
				e.total = int64(1 + r.Intn("cfg", 100))
			case 2:
				e.total = int64(int(tubes.MaxFrameDataLength) - 1 + r.Intn("cfg", 3))
			case 3:
				e.total = int64(300000 + r.Intn("cfg", 1500000))
			default:
				e.total = int64(1 + r.Intn("cfg", 120000))
			}
			e.closes = closer != nil && w == closer // the reader of this stream sits at the end that stays open
			ends = append(ends, e)
			key := e.name
			wg.Add(1)
			if w == closer {
				closerWG.Add(1)
			}
			r.Go(func() { // writer
				defer wg.Done()
				if w == closer {
					defer closerWG.Done()
				}
				profile := r.Intn(key, 3)
				constSz := []int64{1, 100, 1200, 1500, 4000, 32768, 100000}[r.Intn(key, 7)]
				pause := r.Intn(key, 3) == 0
				for e.written < e.total {
					var sz int64
					if profile == 0 {
						sz = constSz
						if constSz < 100 && e.total > 3000 {
							sz = 1200
						}
					}
					switch r.Intn(key, 5) * min(profile, 1) {
					case 0:
						if profile != 0 {
							sz = 1 + int64(r.Intn(key, 16))
						}
					case 1:
						sz = int64(tubes.MaxFrameDataLength) - 1 + int64(r.Intn(key, 3))
					case 2:
						sz = 1 + int64(r.Intn(key, 200000))
					default:
						sz = 1 + int64(r.Intn(key, 5000))
					}
					if sz > e.total-e.written {
						sz = e.total - e.written
					}
					b := make([]byte, sz)
					streamFill(b, e.salt, e.written)
					k, err := w.Write(b)
					if err != nil {
						r.Logf("%s: write error at %d: %v", e.name, e.written, err)
						e.rerr = err
						return
					}
					e.written += int64(k)
					if k != len(b) {
						r.Violate("C08/short-write", "%s: Write(%d) returned %d, nil", e.name, len(b), k)
						return
					}
					if pause && r.Intn(key, 3) == 0 {
						time.Sleep(time.Duration(r.Intn(key, 200)) * time.Millisecond)
					}
				}
			})
			if rd == closer {
				closerWG.Add(1)
			}
			r.Go(func() { // reader
				defer close(e.done)
				if rd == closer {
					defer closerWG.Done()
				}
				buf := make([]byte, 1+r.Intn(key+"r", 70000))
				for {
					if e.read == e.total && !e.closes {
						return
					}
					k, err := rd.Read(buf)
					if k > 0 {
						r.Obligation(1)
						if bad := streamCheck(buf[:k], e.salt, e.read); bad >= 0 {
							r.Violate("C08/stream-corrupt", "%s: bytes read at offset %d (+%d) are not the bytes written there (read of %d bytes at stream offset %d)", e.name, e.read+int64(bad), bad, k, e.read)
							return
						}
						e.read += int64(k)
						if e.read > e.total {
							r.Violate("C08/stream-corrupt", "%s: read %d bytes, only %d were written", e.name, e.read, e.total)
							return
						}
					}
					if err != nil {
						if errors.Is(err, io.EOF) {
							e.eof = true
							r.Obligation(1)
							if !e.closes || e.read != e.total {
								r.Violate("C08/early-eof"+e.gaveUp(), "%s: end-of-stream reported at offset %d; the peer wrote %d of %d bytes and closes=%v closed=%v", e.name, e.read, e.written, e.total, e.closes, e.closed)
							}
						} else {
							e.rerr = err
							r.Logf("%s: read error at %d: %v", e.name, e.read, err)
						}
						return
					}
				}
			})
		}
		if closer != nil {
			cl := closer
			myEnds := ends[len(ends)-2:]
			r.Go(func() {
				closerWG.Wait()
				err := cl.Close()
				for _, e := range myEnds {
					if e.closes {
						e.closed = true
					}
				}
				r.Logf("tube%d: end closed: %v", i, err)
			})
		}
	}

	// liveness: once the network is faithful every written byte becomes readable within the bound
	// (the clock for the bound starts when the last fault is over AND the writers have
	// handed all their bytes to the tubes; Write never blocks on the network)
	writersDone := make(chan struct{})
	r.Go(func() { wg.Wait(); close(writersDone) })
	select {
	case <-writersDone:
	case <-time.After(2 * time.Hour):
		r.Violate("C08/write-blocked", "a Write call did not return within 2 simulated hours; goroutines:\n  %s", BlockedSummary())
	}
	if stallUntil > faultsFor {
		faultsFor = stallUntil
	}
	if rem := faultsFor - r.Now(); rem > 0 {
		time.Sleep(rem)
	}
	bound := 5 * time.Minute
	allDone := make(chan struct{})
	r.Go(func() {
		for _, e := range ends {
			<-e.done
		}
		close(allDone)
	})
	select {
	case <-allDone:
	case <-time.After(bound):
	}
	stacks := ""
	for _, e := range ends {
		select {
		case <-e.done:
			r.Obligation(1)
			if e.rerr != nil && !r.Failed() {
				r.Violate("C08/io-error"+e.gaveUp(), "%s: tube I/O failed although the muxers were never stopped: %v (read %d, written %d of %d)", e.name, e.rerr, e.read, e.written, e.total)
			}
		default:
			r.Obligation(1)
			if stacks == "" {
				stacks = BlockedSummary()
			}
			class := "C08/incomplete-after-recovery" + e.gaveUp()
			r.Violate(class, "%s: %d of %d bytes readable (writer wrote %d, closed=%v) %v after the last fault; faults lasted %v; goroutines:\n  %s", e.name, e.read, e.total, e.written, e.closed, bound, faultsFor, stacks)
		}
	}
	r.Sample = append(r.Sample, fmt.Sprintf("tubes=%d streams=%d sent=%d dropped=%d", nTubes, len(ends), n.Sent, n.Dropped))
	for _, e := range ends {
		r.Logf("%s total=%d written=%d read=%d eof=%v", e.name, e.total, e.written, e.read, e.eof)
	}
	if !mp.StopBoth(r, 2*time.Minute) {
		r.Logf("muxer stop did not return within 2 minutes (judged by C16, not here)")
	}
	wg.Wait()
	time.Sleep(10 * time.Second)
}
