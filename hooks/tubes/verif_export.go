//go:build verif

package tubes

import "github.com/sirupsen/logrus"

// VerifState returns the lifecycle state of a tube as a string (white-box
// accessor for the simulation harness; file added by -overlay).
func VerifState(t Tube) string {
	names := map[state]string{created: "created", initiated: "initiated", closeWait: "closeWait", lastAck: "lastAck",
		finWait1: "finWait1", finWait2: "finWait2", closing: "closing", closed: "closed"}
	switch v := t.(type) {
	case *Reliable:
		if !v.l.TryLock() {
			return "locked"
		}
		defer v.l.Unlock()
		return names[v.tubeState]
	case *Unreliable:
		if s, ok := v.state.Load().(state); ok {
			return names[s]
		}
	}
	return "?"
}

// VerifRecv drives the real reassembly core (receiver) in isolation.
type VerifRecv struct{ r *receiver }

// VerifNewReceiver creates a receiver that expects frame number start next.
// VerifBuffered returns the number of received, in-order bytes a reliable tube holds for its reader
// right now (-1 for other tubes or while the receiver is busy).
func VerifBuffered(t Tube) int {
	v, ok := t.(*Reliable)
	if !ok || !v.recvWindow.m.TryLock() {
		return -1
	}
	defer v.recvWindow.m.Unlock()
	return v.recvWindow.buffer.Len()
}

func VerifNewReceiver(start uint64) *VerifRecv {
	r := newReceiver(logrus.WithField("verif", "recv"))
	r.m.Lock()
	r.ackNo = start
	r.windowStart = start
	r.m.Unlock()
	return &VerifRecv{r}
}

// Receive feeds one data (or FIN) frame; it returns whether the FIN was processed.
func (v *VerifRecv) Receive(frameNo uint32, data []byte, fin bool) (bool, error) {
	f := &frame{frameNo: frameNo, data: data, dataLength: uint16(len(data)), flags: frameFlags{REL: true, FIN: fin, ACK: fin}}
	return v.r.receive(f)
}

// Drain returns the bytes assembled so far without blocking.
func (v *VerifRecv) Drain() []byte {
	v.r.m.Lock()
	defer v.r.m.Unlock()
	out := append([]byte(nil), v.r.buffer.Bytes()...)
	v.r.buffer.Reset()
	return out
}

// Ack returns the receiver's cumulative acknowledgement number (32 bit on the wire).
func (v *VerifRecv) Ack() uint32 { return v.r.getAck() }
