package sim

import (
	"fmt"
	"net"
	"sync"
	"syscall"
	"time"

	"hop.computer/hop/transport"
)

// C03, a large write that is cut short — "on a faithful network every byte accepted by a write call of any
// size is delivered, and the call reports exactly the number of bytes it sent".  One session on a network
// that loses nothing.  One side calls Write with a buffer that takes several packets; in the middle of the
// call the socket refuses a datagram, the writer's own session is closed by another goroutine, or the peer
// closes.  Oracles:
//   - the count Write returns equals the number of payload bytes of the data packets the writer's socket
//     really transmitted during the call (the per-packet overhead is measured on a first, small write);
//   - everything counted is delivered: a peer that keeps reading receives exactly that many bytes, and they
//     are the first bytes of the buffer, in order.

func init() {
	Register(&Scenario{Name: "write-cut-short", Property: "C03", Fn: scWriteCut})
}

func scWriteCut(r *Run) {
	n := NewNet(r)
	defer n.Stop()
	n.Quiet = true
	n.Cfg.Latency = time.Duration(1+r.Intn("cfg", 20)) * time.Millisecond
	hidden := r.Intn("cfg", 3) == 0
	srv := StartServer(r, n, ServerOpts{Hidden: hidden, HSTimeout: 3 * time.Second})
	defer srv.Srv.Close()
	copts := ClientOpts{Hidden: hidden}
	if r.Intn("hsbound", 3) == 0 {
		// the handshake is bounded by an absolute deadline (net.Dialer.Deadline) instead of the relative timeout;
		// the session outlives that instant
		dl := time.Now().Add(1500 * time.Millisecond)
		both := r.Intn("hsbound", 2) == 0
		copts.Mutate = func(cfg *transport.ClientConfig) {
			cfg.HSDeadline = dl
			cfg.HSTimeout = 0
			if both {
				cfg.HSTimeout = 5 * time.Second
			}
		}
		r.SetCfg("handshake-bound", "absolute deadline")
	}
	tc := NewTClient(r, n, srv, copts)
	if err := tc.C.Handshake(); err != nil {
		r.Violate("C03/nofault/handshake-failed", "honest handshake on a faithful network failed: %v", err)
		return
	}
	h, err := srv.Srv.AcceptTimeout(10 * time.Second)
	if err != nil {
		r.Violate("C03/nofault/accept-failed", "server did not offer the connection of an honest client: %v", err)
		return
	}
	clientWrites := r.Intn("cfg", 2) == 0
	var wr func([]byte) (int, error)
	var rd func([]byte) (int, error)
	var wClose, rClose func() error
	wep, wname := srv.EP, "server handle"
	wr, wClose, rd, rClose = h.Write, h.Close, tc.C.Read, tc.C.Close
	if clientWrites {
		wep, wname = tc.EP, "client"
		wr, wClose, rd, rClose = tc.C.Write, tc.C.Close, h.Read, h.Close
	}
	r.SetCfg("writer", wname)

	// data packets the writer's socket transmits
	var mu sync.Mutex
	var sizes []int
	n.OnSend = func(d *Dgram) {
		if d.SrcEP == wep && len(d.Data) > 0 && d.Data[0] == 0x10 {
			mu.Lock()
			sizes = append(sizes, len(d.Data))
			mu.Unlock()
		}
	}
	// the reader: collects the byte stream
	salt := r.U64("salt")
	var got int64
	var rdErr error
	bad := int64(-1)
	readerStops := make(chan struct{})
	readDone := make(chan struct{})
	r.Go(func() {
		defer close(readDone)
		buf := make([]byte, 70000)
		for {
			k, err := rd(buf)
			mu.Lock()
			if k > 0 {
				if b := streamCheck(buf[:k], salt, got-100); got >= 100 && b >= 0 && bad < 0 {
					bad = got + int64(b)
				}
				got += int64(k)
			}
			mu.Unlock()
			if err != nil {
				mu.Lock()
				rdErr = err
				mu.Unlock()
				return
			}
			select {
			case <-readerStops:
				return
			default:
			}
		}
	})
	// calibration: a small write shows the per-packet overhead
	if k, err := wr(make([]byte, 100)); err != nil || k != 100 {
		r.Violate("C03/nofault/write-error", "%s: Write(100 bytes) on an open session returned (%d, %v)", wname, k, err)
		return
	}
	time.Sleep(time.Second)
	mu.Lock()
	if len(sizes) != 1 || got != 100 {
		mu.Unlock()
		r.Violate("C03/nofault/write-not-delivered", "%s: a write of 100 bytes on a faithful network: %d data packet(s) transmitted, %d bytes read by the peer", wname, len(sizes), got)
		return
	}
	overhead := sizes[0] - 100
	sizes = sizes[:0]
	mu.Unlock()

	max := transport.MaxPlaintextSize
	chunks := 2 + r.Intn("cfg", 4)
	total := (chunks-1)*max + 1 + r.Intn("cfg", max)
	if r.Intn("cfg", 4) == 0 {
		total = chunks * max
	}
	fault := r.Intn("cfg", 5)
	faultName := []string{"none", "socket refuses a datagram", "writer's session closed by another goroutine", "peer closes", "socket refuses every datagram from one on"}[fault]
	r.SetCfg("fault", faultName)
	r.SetCfg("bytes", total)
	// every datagram takes a while to leave, so that closes land between two packets of the call
	perPkt := time.Duration(1+r.Intn("cfg", 40)) * time.Millisecond
	sent := 0
	refuseAt := 1 + r.Intn("cfg", chunks)
	wep.WriteStall = func() time.Duration { return perPkt }
	wep.WriteErr = func(dst *net.UDPAddr) error {
		sent++
		if (fault == 1 && sent == refuseAt) || (fault == 4 && sent >= refuseAt) {
			r.CountFault("socket-write-refused", 1)
			return syscall.ENOBUFS
		}
		return nil
	}
	closeAt := time.Duration(r.Intn("cfg", int(perPkt/time.Millisecond)*(chunks+1)+1)) * time.Millisecond
	switch fault {
	case 2:
		r.Go(func() {
			time.Sleep(closeAt)
			r.CountFault("local-close-during-write", 1)
			WithTimeout(r, 30*time.Second, func() { wClose() })
		})
	case 3:
		r.Go(func() {
			time.Sleep(closeAt)
			r.CountFault("peer-close-during-write", 1)
			close(readerStops)
			WithTimeout(r, 30*time.Second, func() { rClose() })
		})
	}
	b := make([]byte, total)
	streamFill(b, salt, 0)
	var nw int
	var werr error
	r.Obligation(1)
	if !WithTimeout(r, 2*time.Minute, func() { nw, werr = wr(b) }) {
		r.Violate("C03/write-does-not-return", "%s: Write(%d bytes) with fault %q did not return within 2 simulated minutes", wname, total, faultName)
		return
	}
	wep.WriteErr = nil
	time.Sleep(3 * time.Second)
	mu.Lock()
	onWire := 0
	for _, s := range sizes {
		onWire += s - overhead
	}
	npk := len(sizes)
	delivered, readErr, badAt := got-100, rdErr, bad
	mu.Unlock()
	r.Sample = append(r.Sample, fmt.Sprintf("%s Write(%d) fault=%d -> (%d, %v); %d packets, %d payload bytes on the wire, %d read", wname, total, fault, nw, werr, npk, onWire, delivered))
	if badAt >= 0 {
		r.Violate("C03/stream-content-differs", "the peer read a byte at stream offset %d that is not the byte written there", badAt-100)
		return
	}
	if fault == 0 && (werr != nil || nw != total) {
		r.Violate("C03/nofault/write-short-count", "%s: Write(%d bytes) on an open session of a faithful network returned (%d, %v)", wname, total, nw, werr)
		return
	}
	if nw != onWire {
		r.Violate("C03/write-count-differs-from-bytes-sent", "%s: Write(%d bytes), cut short by: %s, returned (%d, %v), but the data packets its socket transmitted during the call carry %d payload bytes (%d packets): a caller that resumes at the reported offset loses or repeats %d bytes",
			wname, total, faultName, nw, werr, onWire, npk, abs(nw-onWire))
		return
	}
	if fault != 3 && delivered != int64(onWire) {
		// (the peer kept reading; a closed writer ends the stream after what it sent)
		r.Violate("C03/accepted-bytes-not-delivered", "%s: Write(%d bytes) returned (%d, %v) and transmitted %d payload bytes on a network that loses nothing, but the peer read %d bytes (its reader ended with %v)",
			wname, total, nw, werr, onWire, delivered, readErr)
		return
	}
	if fault == 3 && delivered > int64(onWire) {
		r.Violate("C03/more-read-than-sent", "the peer read %d bytes of a write that transmitted %d", delivered, onWire)
	}
	WithTimeout(r, 30*time.Second, func() { wClose() })
	WithTimeout(r, 30*time.Second, func() { rClose() })
	select {
	case <-readDone:
	case <-time.After(30 * time.Second):
	}
}

func abs(x int) int {
	if x < 0 {
		return -x
	}
	return x
}
