package sim

import (
	"encoding/json"
	"fmt"
	"os"
	"runtime"
	"sort"
	"strconv"
	"strings"
	"time"
)

// Site is one instrumented synchronisation point (see tools/instrument).
type Site struct {
	ID   int    `json:"id"`
	File string `json:"file"`
	Line int    `json:"line"`
	Func string `json:"func"`
	Kind string `json:"kind"`
}

// Sites is the table of instrumented sites of the current build (index = id).
var Sites []Site

// LoadSites reads the site table written by the build step.
func LoadSites(path string) error {
	b, err := os.ReadFile(path)
	if err != nil {
		return err
	}
	var v struct {
		Sites []Site `json:"sites"`
	}
	if err := json.Unmarshal(b, &v); err != nil {
		return err
	}
	max := 0
	for _, s := range v.Sites {
		if s.ID > max {
			max = s.ID
		}
	}
	Sites = make([]Site, max+1)
	for _, s := range v.Sites {
		Sites[s.ID] = s
	}
	return nil
}

const maxYieldFired = 4096

// siteTrace (VERIF_SITETRACE=1) logs every visit of an instrumented site: a
// debugging aid for replays, never used by a check.
var siteTrace = os.Getenv("VERIF_SITETRACE") == "1"

// yieldState is the seeded yield scheduler.  Its hook runs on goroutines of the
// system under test at every instrumented synchronisation statement, so it
// touches only preallocated arrays from a norace function: it must neither
// create happens-before edges (which would hide data races from the race
// detector) nor be reported itself.
type yieldState struct {
	run      *Run
	on       bool
	seed     uint64
	armed    []uint8
	visits   []int64
	ord      []uint32
	budget   int
	thresh   uint64 // fire when (v>>11) < thresh
	fired    [maxYieldFired]uint64
	nfired   int
	suppress []uint64
	// goschedOnly: every fired yield is a plain reschedule, never a sleep (for scenarios that drive the
	// network step by step and take "everything is blocked" for "the delivery has been processed")
	goschedOnly bool
}

func (y *yieldState) init(r *Run) {
	n := len(Sites)
	if n == 0 {
		n = 1
	}
	y.seed = splitmix(r.seed ^ 0x59454c44)
	y.run = r
	y.armed = make([]uint8, n)
	y.visits = make([]int64, n)
	y.ord = make([]uint32, n)
	y.nfired = 0
	y.on = false
	for s := range r.suppress {
		if !strings.HasPrefix(s, "yield:") {
			continue
		}
		rest := strings.TrimPrefix(s, "yield:")
		a, b, ok := strings.Cut(rest, "#")
		if !ok {
			continue
		}
		si, e1 := strconv.Atoi(a)
		oi, e2 := strconv.Atoi(b)
		if e1 != nil || e2 != nil {
			continue
		}
		y.suppress = append(y.suppress, uint64(si)<<32|uint64(uint32(oi)))
	}
	sort.Slice(y.suppress, func(i, j int) bool { return y.suppress[i] < y.suppress[j] })
}

//go:norace
func (y *yieldState) hook(site int) {
	if site <= 0 || site >= len(y.visits) {
		return
	}
	y.visits[site]++
	if siteTrace && y.run != nil {
		st := Sites[site]
		y.run.Logf("  @ %s:%d %s [%s]", st.File, st.Line, st.Func, st.Kind)
	}
	if !y.on || y.armed[site] == 0 || y.budget <= 0 {
		return
	}
	o := y.ord[site]
	y.ord[site] = o + 1
	v := splitmix(y.seed ^ uint64(site)*0x9E3779B97F4A7C15 ^ uint64(o)<<40)
	if v>>11 >= y.thresh {
		return
	}
	code := uint64(site)<<32 | uint64(o)
	// binary search in the suppress list
	lo, hi := 0, len(y.suppress)
	for lo < hi {
		m := (lo + hi) / 2
		if y.suppress[m] < code {
			lo = m + 1
		} else {
			hi = m
		}
	}
	if lo < len(y.suppress) && y.suppress[lo] == code {
		return
	}
	w := splitmix(v)
	act := 1 + w%3
	if y.goschedOnly {
		act = 1
	}
	if y.nfired < maxYieldFired {
		y.fired[y.nfired] = code<<2 | act // site<<34 | ord<<2 | act
		y.nfired++
	}
	y.budget--
	switch act {
	case 1:
		runtime.Gosched()
	case 2:
		time.Sleep(time.Duration(1+(w>>8)%50) * time.Microsecond)
	case 3:
		d := time.Duration(1+(w>>8)%20) * time.Millisecond
		if (w>>20)%4 == 0 {
			// a stalled thread (descheduled, paging, a long GC assist): long enough for timers of the
			// code under test (forced closes, handshake and last-ack timeouts) to fire meanwhile
			d = time.Duration(20+(w>>24)%2000) * time.Millisecond
		}
		time.Sleep(d)
	}
}

// YieldsOn switches the armed yields on or off (scenarios keep them off during
// set-up phases that are not under test).
func (r *Run) YieldsOn(on bool) { r.yield.on = on }

// YieldsRescheduleOnly makes every fired yield a plain reschedule (no sleeps).
func (r *Run) YieldsRescheduleOnly() { r.yield.goschedOnly = true }

// ArmYields arms up to nSites random instrumented sites whose function name
// matches one of the prefixes, with a total budget of non-benign actions and
// per-visit firing probability p.
func (r *Run) ArmYields(prefixes []string, nSites, budget int, p float64) {
	y := &r.yield
	if len(y.armed) == 0 {
		return
	}
	cand := []int{}
	for _, s := range Sites {
		if s.ID == 0 {
			continue
		}
		for _, pre := range prefixes {
			if strings.HasPrefix(s.Func, pre) || strings.HasPrefix(s.File, pre) {
				cand = append(cand, s.ID)
				break
			}
		}
	}
	if len(cand) == 0 {
		return
	}
	how := "random sites"
	if r.Intn("yield-arm", 3) == 0 {
		// swarm variant: every site of ONE function (windows between two neighbouring statements of a
		// function, e.g. a check and the lock taken after it, need both of its sites perturbed)
		fn := Sites[cand[r.Intn("yield-arm", len(cand))]].Func
		nSites = 0
		for _, id := range cand {
			if Sites[id].Func == fn {
				y.armed[id] = 1
				nSites++
			}
		}
		how = "all sites of " + fn
	} else {
		for i := 0; i < nSites; i++ {
			id := cand[r.Intn("yield-arm", len(cand))]
			y.armed[id] = 1
		}
	}
	y.budget = budget
	y.thresh = uint64(p * float64(uint64(1)<<53))
	r.SetCfg("yield", fmt.Sprintf("%s (%d) budget=%d p=%.2f", how, nSites, budget, p))
}

// collectYields moves fired yields into the run's decision list and returns
// the number of distinct sites that were visited.
func (r *Run) collectYields() int {
	y := &r.yield
	for i := 0; i < y.nfired; i++ {
		c := y.fired[i]
		act := c & 3
		code := c >> 2
		site := code >> 32
		ord := code & 0xffffffff
		r.Fired = append(r.Fired, fmt.Sprintf("yield:%d#%d=%d", site, ord, act))
		r.faults["yield"]++
	}
	n := 0
	for _, v := range y.visits {
		if v > 0 {
			n++
		}
	}
	return n
}

// SiteVisits returns the number of visits of instrumented sites whose function
// name contains substr (reach probes).
func (r *Run) SiteVisits(substr string) int64 {
	var n int64
	for id, v := range r.yield.visits {
		if v > 0 && id < len(Sites) && strings.Contains(Sites[id].Func, substr) {
			n += v
		}
	}
	return n
}
