package sim

import (
	"encoding/binary"
	"fmt"
	"io"
	"runtime"
	"strings"
	"sync"
	"time"

	"github.com/AstromechZA/etcpwdparse"
	"github.com/sirupsen/logrus"

	"hop.computer/hop/authgrants"
	"hop.computer/hop/certs"
	"hop.computer/hop/common"
	"hop.computer/hop/config"
	"hop.computer/hop/hopserver"
	"hop.computer/hop/keys"
	"hop.computer/hop/pkg/thunks"
	"hop.computer/hop/transport"
	"hop.computer/hop/tubes"
	"hop.computer/hop/userauth"
)

// C07 — a delegate session can do only what its grants allow, once, and in time.

func init() {
	Register(&Scenario{Name: "delegate-session", Property: "C07", Fn: scDelegate, Yields: true})
}

type mGrant struct {
	typ   authgrants.GrantType
	cmd   string
	start time.Time
	exp   time.Time
	user  string
	key   keys.DHPublicKey
	moved int // session number that took it (0 = still stored on the server)
	label string
}

type mAction struct {
	kind  string // "exec", "pf", "mint"
	shell bool
	cmd   string
	at    time.Time
	sess  int
	desc  string
}

type execStart struct {
	cmd   string
	shell bool
}

// execHook picks the server's "starting code execution" log entries (command and shell fields).
type execHook struct{ fn func(cmd string, shell bool) }

func (h *execHook) Levels() []logrus.Level { return []logrus.Level{logrus.InfoLevel} }
func (h *execHook) Fire(e *logrus.Entry) error {
	if e.Message == "starting code execution" {
		cmd, _ := e.Data["command"].(string)
		shell, _ := e.Data["shell"].(bool)
		h.fn(cmd, shell)
	}
	return nil
}

type nullFormatter struct{}

func (nullFormatter) Format(*logrus.Entry) ([]byte, error) { return nil, nil }

func calledFrom(fn string) bool {
	pcs := make([]uintptr, 32)
	n := runtime.Callers(2, pcs)
	frames := runtime.CallersFrames(pcs[:n])
	for {
		f, more := frames.Next()
		if strings.Contains(f.Function, fn) {
			return true
		}
		if !more {
			return false
		}
	}
}

func execInit(usePty bool, cmd string) []byte {
	b := make([]byte, 9+len(cmd)+5)
	if usePty {
		b[0] = 1
	}
	binary.BigEndian.PutUint32(b[1:], uint32(len(cmd)))
	copy(b[5:], cmd)
	binary.BigEndian.PutUint32(b[5+len(cmd):], 5)
	copy(b[9+len(cmd):], "xterm")
	return b
}

func scDelegate(r *Run) {
	n := NewNet(r)
	defer n.Stop()
	n.Quiet = true
	n.Cfg.Latency = time.Duration(1+r.Intn("cfg", 10)) * time.Millisecond
	users := []string{"alice", "bob"}
	// transport-level admission by authorized keys: delegate keys get in only through grants
	ks := AuthKeySet()
	cv := &transport.VerifyConfig{AuthKeys: ks, AuthKeysAllowed: true}
	ts := StartServer(r, n, ServerOpts{ClientVerify: cv, HSTimeout: 3 * time.Second})
	hs, err := hopserver.NewHopServerExt(ts.Srv, &config.ServerConfig{EnableAuthorizedKeys: true, EnableAuthgrants: true}, ks)
	must(err)
	sfs := &simFS{r: r, files: map[string]*simFile{}, opens: map[string]int{}}
	hs.VerifSetFS(sfs)
	var mu sync.Mutex
	curReq, curSess := -1, 0
	slowLookup := time.Duration(0)
	if r.Intn("cfg", 3) == 0 {
		slowLookup = time.Duration(100+r.Intn("cfg", 3000)) * time.Millisecond
	}
	started := map[int]bool{}
	reqCmd := map[int]execStart{}
	var pending []execStart
	var actions []*mAction
	base := time.Now()
	// WHICH command the server is about to start is taken from the server itself (its log entry right
	// before the user lookup), not from the request the harness happens to be issuing: the server pairs
	// exec tubes in arrival order, so a command can be started by a later pair than the one it was sent for
	logrus.SetLevel(logrus.InfoLevel)
	logrus.SetFormatter(nullFormatter{})
	logrus.AddHook(&execHook{fn: func(cmd string, shell bool) {
		mu.Lock()
		pending = append(pending, execStart{cmd, shell})
		mu.Unlock()
	}})
	defer func() {
		logrus.SetLevel(logrus.ErrorLevel)
		logrus.StandardLogger().ReplaceHooks(make(logrus.LevelHooks))
		logrus.SetFormatter(&logrus.TextFormatter{})
	}()
	thunks.LookupUser = func(name string) (*etcpwdparse.EtcPasswdEntry, error) {
		if calledFrom("hopSession).startCodex") {
			// the request passed the grant check: execution would start now.  Nothing is run.
			mu.Lock()
			started[curReq] = true
			es, ok := reqCmd[curReq], false
			if len(pending) > 0 {
				es, ok = pending[len(pending)-1], true
				pending = pending[:len(pending)-1]
			}
			if !ok {
				r.Probe("exec-start-without-log-entry")
			}
			at := time.Now()
			actions = append(actions, &mAction{kind: "exec", shell: es.shell, cmd: es.cmd, at: at, sess: curSess,
				desc: fmt.Sprintf("command shell=%v cmd=%q at +%v", es.shell, es.cmd, at.Sub(base))})
			slow := slowLookup
			mu.Unlock()
			if slow > 0 {
				time.Sleep(slow) // a slow user database: the handler of this request is still busy while others arrive
			}
			return nil, thunks.ErrUserNotFound
		}
		for _, u := range users {
			if u == name {
				return passwdEntry(name, "/home/"+name)
			}
		}
		return nil, thunks.ErrUserNotFound
	}
	r.Go(func() {
		for {
			h, err := ts.Srv.AcceptTimeout(24 * time.Hour)
			if err != nil {
				return
			}
			go hs.VerifNewSession(h)
		}
	})
	defer func() {
		WithTimeout(r, time.Minute, func() { hs.Close() })
		time.Sleep(5 * time.Second)
	}()

	// --- grants
	delegateKeys := []*keys.X25519KeyPair{newX25519(), newX25519()}
	cmds := []string{"ls", "ls -l", "cat /etc/passwd", "id"}
	var grants []*mGrant
	addGrant := func(key string) {
		g := &mGrant{user: users[r.Intn(key, 2)], key: delegateKeys[r.Intn(key, 2)].Public}
		g.typ = []authgrants.GrantType{authgrants.Shell, authgrants.Command, authgrants.Command, authgrants.LocalPF, authgrants.RemotePF}[r.Intn(key, 5)]
		if g.typ == authgrants.Command {
			g.cmd = cmds[r.Intn(key, len(cmds))]
		}
		g.start = time.Now().Add([]time.Duration{-time.Hour, 0, 20 * time.Second, 90 * time.Second, time.Hour}[r.Intn(key, 5)])
		g.exp = g.start.Add([]time.Duration{30 * time.Second, 5 * time.Minute, 2 * time.Hour}[r.Intn(key, 3)])
		if r.Intn("far", 8) == 0 {
			// a grant for the far future (legal on the wire: 64-bit seconds): it is not in force today, however the
			// instants are represented internally
			g.start = []time.Time{time.Date(2262, 4, 12, 0, 0, 0, 0, time.UTC), time.Date(2300, 1, 1, 0, 0, 0, 0, time.UTC), time.Date(2554, 7, 22, 0, 0, 0, 0, time.UTC), time.Date(9999, 12, 31, 0, 0, 0, 0, time.UTC)}[r.Intn("far", 4)]
			g.exp = []time.Time{g.start.Add(time.Hour), g.start.AddDate(400, 0, 0), time.Now().Add(10 * time.Minute)}[r.Intn("far", 3)]
			r.CountFault("grant-for-the-far-future", 1)
		}
		k := g.key
		in := &authgrants.Intent{GrantType: g.typ, StartTime: g.start, ExpTime: g.exp, TargetUsername: g.user,
			DelegateCert: *SelfSigned(k, certs.RawStringName("delegate"))}
		in.AssociatedData.CommandGrantData.Cmd = g.cmd
		g.label = fmt.Sprintf("%s grant %q for %s, valid %v..%v after t0", map[authgrants.GrantType]string{1: "shell", 2: "command", 3: "local-pf", 4: "remote-pf"}[g.typ], g.cmd, g.user, g.start.Sub(base), g.exp.Sub(base))
		if err := hs.AddAuthGrant(in); err != nil {
			r.Violate("C07/nofault/add-grant-failed", "%v", err)
			return
		}
		mu.Lock()
		grants = append(grants, g)
		mu.Unlock()
		r.Logf("stored: %s", g.label)
	}
	for i := 0; i < 1+r.Intn("cfg", 5); i++ {
		addGrant("grant")
	}

	sessNo := 0
	reqNo := 0
	// one delegate connection: login, then a drawn sequence of action requests
	runSession := func(key string) {
		sessNo++
		me := sessNo
		dk := delegateKeys[r.Intn(key, 2)]
		if r.Intn(key, 6) == 0 {
			dk = newX25519() // a key nobody granted anything to
		}
		user := users[r.Intn(key, 2)]
		tc := NewTClient(r, n, ts, ClientOpts{Addr: Addr(byte(20+me), 4000+me), Key: dk, Leaf: SelfSigned(dk.Public, certs.RawStringName("delegate")), HSTimeout: 3 * time.Second})
		defer tc.C.Close()
		// was the key admissible at the transport layer? (a stored grant for it exists)
		mu.Lock()
		storedForKey := 0
		for _, g := range grants {
			if g.moved == 0 && g.key == dk.Public {
				storedForKey++
			}
		}
		mu.Unlock()
		herr := tc.C.Handshake()
		r.Obligation(1)
		if herr == nil && storedForKey == 0 {
			// the server may still refuse at login; what must not happen is data delivery / login (checked below)
			r.Probe("handshake-with-ungranted-key-completed-client-side")
		}
		if herr != nil {
			r.Logf("session %d: handshake refused (%v), stored grants for the key: %d", me, herr, storedForKey)
			return
		}
		mux := tubes.Client(tc.C, &tubes.Config{Log: NewLogEntry()})
		defer func() { WithTimeout(r, 30*time.Second, func() { mux.Stop() }) }()
		ua, err := mux.CreateReliableTube(common.UserAuthTube)
		if err != nil {
			return
		}
		ok := false
		if !WithTimeout(r, 20*time.Second, func() { ok = userauth.RequestAuthorization(ua, user) }) {
			return
		}
		ua.Close()
		if !ok {
			r.Logf("session %d: login as %s refused", me, user)
			return
		}
		// login confirmed: the session now owns every stored grant for (user, key)
		mu.Lock()
		owned := 0
		for _, g := range grants {
			if g.moved == 0 && g.user == user && g.key == dk.Public {
				g.moved = me
				owned++
			}
		}
		mu.Unlock()
		r.Logf("session %d: logged in as %s, owns %d grant(s)", me, user, owned)
		// a key whose last grant has been handed out is no longer in the transport layer's set of trusted keys
		mu.Lock()
		left := 0
		for _, g := range grants {
			if g.moved == 0 && g.key == dk.Public {
				left++
			}
		}
		mu.Unlock()
		if left == 0 && owned > 0 {
			r.Obligation(1)
			if ks.VerifyLeaf(SelfSigned(dk.Public, certs.RawStringName("delegate")), certs.VerifyOptions{}) == nil {
				r.Violate("C07/key-still-trusted-after-last-grant", "after the login of session %d consumed the last of the grants stored for its delegate key (%d grants), the key is still in the transport layer's set of trusted keys", me, owned)
				return
			}
		}
		r.Obligation(1)
		if owned == 0 {
			r.Violate("C07/login-without-grant", "a delegate session was admitted as %s although no unconsumed grant existed for that user and key (stored grants for the key under any user: %d)", user, storedForKey)
			return
		}
		nReq := 1 + r.Intn(key, 6)
		for q := 0; q < nReq; q++ {
			if !r.Op(key) {
				continue
			}
			// clock jumps that straddle start and expiry times
			switch r.Intn(key, 5) {
			case 0:
				time.Sleep(time.Duration(1+r.Intn(key, 30)) * time.Second)
			case 1:
				time.Sleep(time.Duration(1+r.Intn(key, 5)) * time.Minute)
			case 2:
				time.Sleep(time.Duration(1+r.Intn(key, 3)) * time.Hour)
				r.CountFault("clock-jump", 1)
			}
			reqNo++
			id := reqNo
			mu.Lock()
			curReq, curSess = id, me
			mu.Unlock()
			// two things no grant can cover (tried on their own, and also in the middle of an exec request,
			// while the server waits for the second tube of the pair)
			tryPF := func() { // remote port forwarding onto a unix socket in a directory that does not exist
				pf, err := mux.CreateReliableTube(common.PFControlTube)
				if err != nil {
					return
				}
				path := "/nonexistent-verif-dir/fwd.sock"
				req := append([]byte{3, 5, 0, byte(len(path))}, path...)
				at := time.Now()
				pf.Write(req)
				resp := make([]byte, 1)
				got := false
				WithTimeout(r, 20*time.Second, func() { _, err := io.ReadFull(pf, resp); got = err == nil })
				r.Logf("session %d: remote port-forward request -> answered=%v byte=%d", me, got, resp[0])
				if got && resp[0] == 1 {
					mu.Lock()
					actions = append(actions, &mAction{kind: "pf", at: at, sess: me, desc: fmt.Sprintf("remote port forwarding at +%v (server answered success)", at.Sub(base))})
					mu.Unlock()
				}
				pf.Close()
			}
			tryMint := func() { // mint a further grant from inside the delegate session
				ag, err := mux.CreateReliableTube(common.AuthGrantTube)
				if err != nil {
					return
				}
				nk := newX25519()
				in := authgrants.Intent{GrantType: authgrants.Shell, StartTime: time.Now(), ExpTime: time.Now().Add(time.Hour),
					TargetUsername: user, TargetSNI: certs.DNSName("target.sim"), DelegateCert: *SelfSigned(nk.Public, certs.RawStringName("delegate2"))}
				at := time.Now()
				authgrants.WriteIntentCommunication(ag, in)
				var m authgrants.AgMessage
				var rerr error
				WithTimeout(r, 20*time.Second, func() { m, rerr = authgrants.ReadConfOrDenial(ag) })
				minted := rerr == nil && m.MsgType == authgrants.IntentConfirmation
				r.Logf("session %d: grant minting request -> confirmed=%v", me, minted)
				if minted {
					mu.Lock()
					actions = append(actions, &mAction{kind: "mint", at: at, sess: me, desc: fmt.Sprintf("issuing a further grant at +%v (server confirmed the intent)", at.Sub(base))})
					mu.Unlock()
				}
				ag.Close()
			}
			switch r.Intn(key, 8) {
			default: // exec request
				shell := r.Intn(key, 3) == 0
				var cmd string
				mu.Lock()
				var mine []*mGrant
				for _, g := range grants {
					if g.moved == me && g.typ == authgrants.Command {
						mine = append(mine, g)
					}
				}
				mu.Unlock()
				if len(mine) > 0 && r.Intn(key, 3) != 0 {
					cmd = mine[r.Intn(key, len(mine))].cmd
					switch r.Intn(key, 6) {
					case 0:
						cmd += " " // differs by one byte
					case 1:
						cmd = cmd[:len(cmd)-1] // prefix
					case 2:
						cmd = strings.ToUpper(cmd)
					}
				} else {
					cmd = append(cmds, "", "rm -rf /")[r.Intn(key, len(cmds)+2)]
				}
				t1, e1 := mux.CreateReliableTube(common.ExecTube)
				if e1 == nil {
					switch r.Intn(key, 8) {
					case 0:
						time.Sleep(time.Duration(r.Intn(key, 50)) * time.Millisecond)
						r.CountFault("forbidden-tube-inside-exec-pair/pf", 1)
						tryPF()
					case 1:
						time.Sleep(time.Duration(r.Intn(key, 50)) * time.Millisecond)
						r.CountFault("forbidden-tube-inside-exec-pair/mint", 1)
						tryMint()
					}
				}
				t2, e2 := mux.CreateReliableTube(common.ExecTube)
				if e1 != nil || e2 != nil {
					return
				}
				// the command may come long after the tubes were opened (the clock moves across start / expiry
				// times in between): what counts is the moment the action is asked for
				if r.Intn(key, 4) == 0 {
					time.Sleep([]time.Duration{time.Second, time.Minute, 20 * time.Minute, 2 * time.Hour}[r.Intn(key, 4)] * time.Duration(1+r.Intn(key, 3)))
					r.CountFault("clock-jump-between-tubes-and-command", 1)
				}
				at := time.Now()
				mu.Lock()
				reqCmd[id] = execStart{cmd, shell}
				mu.Unlock()
				// sometimes the same request is made twice at the same moment (a second pair of tubes)
				if r.Intn(key, 5) == 0 {
					u1, f1 := mux.CreateReliableTube(common.ExecTube)
					u2, f2 := mux.CreateReliableTube(common.ExecTube)
					if f1 == nil && f2 == nil {
						r.CountFault("same-exec-request-twice-at-once", 1)
						u1.Write(execInit(shell, cmd))
						defer u1.Close()
						defer u2.Close()
					}
				}
				t1.Write(execInit(shell, cmd))
				resp := make([]byte, 1)
				WithTimeout(r, 20*time.Second, func() { io.ReadFull(t2, resp) })
				time.Sleep(200 * time.Millisecond)
				mu.Lock()
				st := started[id]
				mu.Unlock()
				r.Logf("session %d: exec shell=%v cmd=%q at +%v -> started=%v", me, shell, cmd, at.Sub(base), st)
				t1.Close()
				t2.Close()
			case 0:
				tryPF()
			case 1:
				tryMint()
			}
		}
	}
	// overlapping logins with one delegate key: the grants are consumed by exactly one of them
	if r.Intn("cfg", 3) == 0 {
		r.ArmYields([]string{"hopserver.", "authgrants."}, 1+r.Intn("race", 4), 1+r.Intn("race", 10), []float64{0.3, 1}[r.Intn("race", 2)])
		r.YieldsOn(true)
		rk := newX25519()
		ru := users[r.Intn("race", 2)]
		in := &authgrants.Intent{GrantType: authgrants.Shell, StartTime: time.Now().Add(-time.Minute), ExpTime: time.Now().Add(time.Hour), TargetUsername: ru,
			DelegateCert: *SelfSigned(rk.Public, certs.RawStringName("delegate"))}
		if hs.AddAuthGrant(in) == nil {
			nPar := 2 + r.Intn("race", 2)
			oks := make([]bool, nPar)
			var lw sync.WaitGroup
			for i := 0; i < nPar; i++ {
				i := i
				lw.Add(1)
				r.Go(func() {
					defer lw.Done()
					tc := NewTClient(r, n, ts, ClientOpts{Addr: Addr(byte(100+i), 4100+i), Key: rk, Leaf: SelfSigned(rk.Public, certs.RawStringName("delegate")), HSTimeout: 3 * time.Second})
					defer tc.C.Close()
					if tc.C.Handshake() != nil {
						return
					}
					mux := tubes.Client(tc.C, &tubes.Config{Log: NewLogEntry()})
					defer func() { WithTimeout(r, 30*time.Second, func() { mux.Stop() }) }()
					ua, err := mux.CreateReliableTube(common.UserAuthTube)
					if err != nil {
						return
					}
					WithTimeout(r, 20*time.Second, func() { oks[i] = userauth.RequestAuthorization(ua, ru) })
					ua.Close()
				})
			}
			lw.Wait()
			admitted := 0
			for _, ok := range oks {
				if ok {
					admitted++
				}
			}
			r.Obligation(1)
			r.CountFault("overlapping-logins-one-grant", 1)
			if admitted > 1 {
				r.Violate("C07/grant-admits-two-sessions", "%d overlapping logins with the same delegate key were all admitted on the strength of ONE stored grant", admitted)
			}
		}
		r.YieldsOn(false)
	}
	nSessions := 1 + r.Intn("cfg", 3)
	for s := 0; s < nSessions; s++ {
		runSession(fmt.Sprintf("sess%d", s))
		if r.Intn("cfg", 3) == 0 {
			addGrant("grant-later")
		}
		time.Sleep(time.Duration(r.Intn("cfg", 60)) * time.Second)
	}

	// --- oracle: every started action needs its own grant (maximum matching, so the model is never stricter than necessary)
	fits := func(a *mAction, g *mGrant) bool {
		if g.moved != a.sess {
			return false
		}
		if a.at.Before(g.start) || !a.at.Before(g.exp) {
			return false
		}
		switch a.kind {
		case "exec":
			if a.shell {
				return g.typ == authgrants.Shell
			}
			return g.typ == authgrants.Command && g.cmd == a.cmd
		case "pf":
			return g.typ == authgrants.RemotePF
		}
		return false // no grant type authorises issuing further grants
	}
	used := make([]bool, len(grants))
	var match func(i int) bool
	match = func(i int) bool {
		if i == len(actions) {
			return true
		}
		for gi, g := range grants {
			if !used[gi] && fits(actions[i], g) {
				used[gi] = true
				if match(i + 1) {
					return true
				}
				used[gi] = false
			}
		}
		return false
	}
	r.Obligation(int64(len(actions)))
	for _, a := range actions {
		r.Probe("action-started/" + a.kind)
	}
	r.ProbeN("requests-issued", int64(reqNo))
	if !match(0) {
		// name the first action that cannot be covered
		for k := 1; k <= len(actions); k++ {
			sub := actions[:k]
			saved := actions
			actions = sub
			for i := range used {
				used[i] = false
			}
			ok := match(0)
			actions = saved
			if !ok {
				a := sub[k-1]
				class := "C07/action-without-matching-grant/" + a.kind
				why := "no grant of that session matches it"
				for _, g := range grants {
					if g.moved == a.sess {
						switch {
						case a.kind == "exec" && ((a.shell && g.typ == authgrants.Shell) || (!a.shell && g.typ == authgrants.Command && g.cmd == a.cmd)) && a.at.Before(g.start):
							why, class = "the matching grant is not yet effective", "C07/grant-used-before-start"
						case a.kind == "exec" && ((a.shell && g.typ == authgrants.Shell) || (!a.shell && g.typ == authgrants.Command && g.cmd == a.cmd)) && !a.at.Before(g.exp):
							why, class = "the matching grant has expired", "C07/grant-used-after-expiry"
						case a.kind == "exec" && ((a.shell && g.typ == authgrants.Shell) || (!a.shell && g.typ == authgrants.Command && g.cmd == a.cmd)):
							why, class = "every matching grant was already used by an earlier action", "C07/grant-used-twice"
						}
					}
				}
				var gl []string
				for _, g := range grants {
					gl = append(gl, fmt.Sprintf("[%s, session %d]", g.label, g.moved))
				}
				r.Violate(class, "the server started %s in delegate session %d although %s; grants: %s", a.desc, a.sess, why, strings.Join(gl, " "))
				break
			}
		}
	}
	r.Sample = append(r.Sample, fmt.Sprintf("grants=%d sessions=%d actions-started=%d", len(grants), nSessions, len(actions)))
}
