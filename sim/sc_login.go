package sim

import (
	"bytes"
	"encoding/base64"
	"fmt"
	"io"
	"io/fs"
	"strings"
	"sync"
	"syscall"
	"time"

	"github.com/AstromechZA/etcpwdparse"

	"hop.computer/hop/authgrants"
	"hop.computer/hop/certs"
	"hop.computer/hop/common"
	"hop.computer/hop/config"
	"hop.computer/hop/hopserver"
	"hop.computer/hop/keys"
	"hop.computer/hop/pkg/thunks"
	"hop.computer/hop/transport"
	"hop.computer/hop/tubes"
	"hop.computer/hop/userauth"
)

// C05 — user login is granted only by a listed key or a live grant, failing closed.

func init() {
	Register(&Scenario{Name: "login", Property: "C05", Fn: scLogin, Yields: true})
}

// ---------------------------------------------------------------------------
// faulty file system (fs.FS): the repository's own seam for authorized_keys

type simFile struct {
	content []byte
	mode    int // 0 ok, 1 missing, 2 open error (EACCES), 3 read error after errAt bytes, 4 one-byte reads, 5 open error (EIO)
	errAt   int
	mtime   time.Time // modification time as Stat reports it (whole seconds, like most file systems the file is copied between)
}

type simFileInfo struct {
	name  string
	size  int64
	mtime time.Time
}

func (i simFileInfo) Name() string       { return i.name }
func (i simFileInfo) Size() int64        { return i.size }
func (i simFileInfo) Mode() fs.FileMode  { return 0o600 }
func (i simFileInfo) ModTime() time.Time { return i.mtime }
func (i simFileInfo) IsDir() bool        { return false }
func (i simFileInfo) Sys() any           { return nil }

type simFS struct {
	r     *Run
	slowP float64 // probability that one read/close call takes simulated time
	mu    sync.Mutex
	files map[string]*simFile
	opens map[string]int
}

func (f *simFS) Open(name string) (fs.File, error) {
	f.mu.Lock()
	defer f.mu.Unlock()
	f.opens[name]++
	sf, ok := f.files[name]
	if !ok || sf.mode == 1 {
		return nil, &fs.PathError{Op: "open", Path: name, Err: fs.ErrNotExist}
	}
	switch sf.mode {
	case 2:
		return nil, &fs.PathError{Op: "open", Path: name, Err: syscall.EACCES}
	case 5:
		return nil, &fs.PathError{Op: "open", Path: name, Err: syscall.EIO}
	}
	return &simOpenFile{sf: sf, fs: f, name: name}, nil
}

type simOpenFile struct {
	sf   *simFile
	fs   *simFS
	name string
	off  int
}

func (o *simOpenFile) Stat() (fs.FileInfo, error) {
	return simFileInfo{name: o.name, size: int64(len(o.sf.content)), mtime: o.sf.mtime}, nil
}
func (o *simOpenFile) Close() error {
	o.slow("close")
	return nil
}

// slow: a file system that takes its time (network mount, spinning disk): open, read and close calls of
// concurrent logins interleave
func (o *simOpenFile) slow(what string) {
	r := o.fs.r
	if o.fs.slowP > 0 && r.Float("fs-slow:"+what) < o.fs.slowP {
		time.Sleep(time.Duration(1+r.Intn("fs-slow:"+what, 80)) * time.Millisecond)
	}
}

func (o *simOpenFile) Read(b []byte) (int, error) {
	o.slow("read")
	c := o.sf.content
	limit := len(c)
	if o.sf.mode == 3 && o.sf.errAt < limit {
		limit = o.sf.errAt
	}
	if o.off >= limit {
		if o.sf.mode == 3 {
			return 0, &fs.PathError{Op: "read", Path: o.name, Err: syscall.EIO}
		}
		return 0, io.EOF
	}
	n := len(b)
	if o.sf.mode == 4 && n > 1 {
		n = 1
	}
	if n > limit-o.off {
		n = limit - o.off
	}
	copy(b, c[o.off:o.off+n])
	o.off += n
	return n, nil
}

// modelAllowedKeys: the keys that appear as well-formed entries in the stored
// content of an authorized-keys file (what a read that hits an I/O error can
// see is a prefix of it; a cut line is not a well-formed entry).
func modelAllowedKeys(sf *simFile) map[keys.DHPublicKey]bool {
	out := map[keys.DHPublicKey]bool{}
	if sf == nil || sf.mode == 1 || sf.mode == 2 || sf.mode == 5 {
		return out
	}
	for _, line := range strings.Split(string(sf.content), "\n") {
		l := strings.TrimSpace(line)
		if !strings.HasPrefix(l, "hop-dh-v1-") {
			continue
		}
		b, err := base64.StdEncoding.DecodeString(l[len("hop-dh-v1-"):])
		if err != nil || len(b) != 32 {
			continue
		}
		var k keys.DHPublicKey
		copy(k[:], b)
		out[k] = true
	}
	return out
}

func keyLine(k keys.DHPublicKey) string {
	return "hop-dh-v1-" + base64.StdEncoding.EncodeToString(k[:])
}

// buildKeysFile assembles file content from valid entries and all kinds of other lines.
func buildKeysFile(r *Run, key string, valid []keys.DHPublicKey, others []keys.DHPublicKey) []byte {
	var lines []string
	for _, k := range valid {
		lines = append(lines, keyLine(k))
	}
	n := r.Intn(key, 6)
	for i := 0; i < n; i++ {
		switch r.Intn(key, 14) {
		case 0:
			lines = append(lines, "# a comment")
		case 1:
			lines = append(lines, "")
		case 2:
			lines = append(lines, "   ")
		case 3:
			lines = append(lines, string(r.Bytes(key, 1+r.Intn(key, 60))))
		case 4:
			lines = append(lines, "ssh-ed25519 AAAAC3NzaC1lZDI1NTE5AAAAIJ user@host")
		case 5: // truncated base64
			if len(others) > 0 {
				l := keyLine(others[r.Intn(key, len(others))])
				lines = append(lines, l[:len(l)-1-r.Intn(key, 20)])
			}
		case 6: // wrong prefix
			if len(others) > 0 {
				lines = append(lines, "hop-dh-v2-"+base64.StdEncoding.EncodeToString(others[0][:]))
			}
		case 7: // wrong length
			lines = append(lines, "hop-dh-v1-"+base64.StdEncoding.EncodeToString(r.Bytes(key, 31+2*r.Intn(key, 2))))
		case 8: // over-long line
			lines = append(lines, "hop-dh-v1-"+strings.Repeat("A", 70000))
		case 9: // another user's valid key
			if len(others) > 0 {
				lines = append(lines, keyLine(others[r.Intn(key, len(others))]))
			}
		case 10, 11: // a valid key text that is NOT a well-formed entry: something precedes or follows it on the line
			if len(others) > 0 {
				l := keyLine(others[r.Intn(key, len(others))])
				lines = append(lines, []string{"#" + l, "# " + l, "no-pty " + l, "x" + l, "hop-kem-v1-" + l, l + " user@host", l + "#", l + "=="}[r.Intn(key, 8)])
			}
		default:
			lines = append(lines, "hop-dh-v1-")
		}
	}
	// any order
	for i := len(lines) - 1; i > 0; i-- {
		j := r.Intn(key, i+1)
		lines[i], lines[j] = lines[j], lines[i]
	}
	sep := "\n"
	if r.Intn(key, 4) == 0 {
		sep = "\r\n"
	}
	s := strings.Join(lines, sep)
	if r.Intn(key, 2) == 0 {
		s += sep
	}
	return []byte(s)
}

// appWorld is a real HopServer on the simulated network.
type appWorld struct {
	ts      *TServer
	hs      *hopserver.HopServer
	fs      *simFS
	keyset  *authKeySetAlias
	homes   map[string]string
	stopAcc chan struct{}
}

type authKeySetAlias = struct{}

func passwdEntry(user, home string) (*etcpwdparse.EtcPasswdEntry, error) {
	e, err := etcpwdparse.ParsePasswdLine(fmt.Sprintf("%s:x:1000:1000:Sim User:%s:/bin/sh", user, home))
	return &e, err
}

// noKeyStore (optional): the server has no set of authorized keys at all - what hopserver.NewHopServer derives
// for "skip client verification" together with "authorization grants enabled".
func startAppServer(r *Run, n *Net, users []string, enableGrants bool, dataTimeout time.Duration, noKeyStore ...bool) (*TServer, *hopserver.HopServer, *simFS, *config.ServerConfig) {
	ks := AuthKeySet()
	if len(noKeyStore) > 0 && noKeyStore[0] {
		ks = nil
	}
	cv := &transport.VerifyConfig{InsecureSkipVerify: true}
	ts := StartServer(r, n, ServerOpts{ClientVerify: cv, HSTimeout: 3 * time.Second})
	sc := &config.ServerConfig{EnableAuthorizedKeys: true, EnableAuthgrants: enableGrants, DataTimeout: dataTimeout}
	hs, err := hopserver.NewHopServerExt(ts.Srv, sc, ks)
	must(err)
	sfs := &simFS{r: r, files: map[string]*simFile{}, opens: map[string]int{}}
	hs.VerifSetFS(sfs)
	known := map[string]bool{}
	for _, u := range users {
		known[u] = true
	}
	thunks.LookupUser = func(name string) (*etcpwdparse.EtcPasswdEntry, error) {
		if !known[name] {
			return nil, thunks.ErrUserNotFound
		}
		return passwdEntry(name, "/home/"+name)
	}
	r.Go(func() {
		for {
			h, err := ts.Srv.AcceptTimeout(24 * time.Hour)
			if err != nil {
				return
			}
			go hs.VerifNewSession(h)
		}
	})
	return ts, hs, sfs, sc
}

func keysPath(user string) string { return "home/" + user + "/.hop/authorized_keys" }

// loginClient performs a scripted login with the real client-side pieces.
type loginClient struct {
	tc  *TClient
	mux *tubes.Muxer
}

func (lc *loginClient) close(r *Run) {
	if lc.mux != nil {
		WithTimeout(r, 30*time.Second, func() { lc.mux.Stop() })
	}
	lc.tc.C.Close()
}

func dialLogin(r *Run, n *Net, ts *TServer, addr byte, key *keys.X25519KeyPair, user string) (*loginClient, bool, error) {
	tc := NewTClient(r, n, ts, ClientOpts{Addr: Addr(addr, 4000+int(addr)), Key: key, Leaf: SelfSigned(key.Public, certs.RawStringName(user)), HSTimeout: 3 * time.Second})
	if err := tc.C.Handshake(); err != nil {
		return nil, false, err
	}
	lc := &loginClient{tc: tc}
	lc.mux = tubes.Client(tc.C, &tubes.Config{Log: NewLogEntry()})
	ua, err := lc.mux.CreateReliableTube(common.UserAuthTube)
	if err != nil {
		return lc, false, err
	}
	ok := false
	if !WithTimeout(r, 30*time.Second, func() { ok = userauth.RequestAuthorization(ua, user) }) {
		return lc, false, fmt.Errorf("login request did not return")
	}
	ua.Close()
	return lc, ok, nil
}

func scLogin(r *Run) {
	n := NewNet(r)
	defer n.Stop()
	n.Quiet = true
	n.Cfg.Latency = time.Duration(1+r.Intn("cfg", 10)) * time.Millisecond
	enableGrants := r.Intn("cfg", 2) == 0
	users := []string{"alice", "bob", "carol"}
	// a server without a key set cannot take grants: AddAuthGrant refuses, and a refused grant admits nobody
	noKS := enableGrants && r.Intn("noks", 5) == 0
	r.SetCfg("key-store", !noKS)
	ts, hs, sfs, srvCfg := startAppServer(r, n, users, enableGrants, 0, noKS)
	if r.Intn("cfg", 3) == 0 {
		sfs.slowP = 0.1 + 0.6*r.Float("cfg")
	}
	r.SetCfg("grants", enableGrants)
	userKeys := map[string][]*keys.X25519KeyPair{}
	var allKeys []*keys.X25519KeyPair
	for _, u := range users {
		for i := 0; i < 1+r.Intn("cfg", 2); i++ {
			k := newX25519()
			userKeys[u] = append(userKeys[u], k)
			allKeys = append(allKeys, k)
		}
	}
	gluedProbe := map[string]keys.DHPublicKey{}
	stranger := newX25519()
	allKeys = append(allKeys, stranger)
	// files
	for _, u := range users {
		var valid, others []keys.DHPublicKey
		for _, k := range userKeys[u] {
			if r.Intn("file", 3) != 0 {
				valid = append(valid, k.Public)
			}
		}
		for _, k := range allKeys {
			isOwn := false
			for _, o := range userKeys[u] {
				if o == k {
					isOwn = true
				}
			}
			if !isOwn {
				others = append(others, k.Public)
			}
		}
		sf := &simFile{content: buildKeysFile(r, "file-"+u, valid, others), mtime: time.Now().Truncate(time.Second)}
		// a long file in which a malformed line (two key texts glued together) straddles a block boundary: its
		// first half alone would be a well-formed entry
		if len(others) > 0 && r.Intn("file", 12) == 0 {
			boundary := 1 << uint([]int{9, 12, 13, 15, 16, 16, 17}[r.Intn("file", 7)])
			g := others[r.Intn("file", len(others))]
			glued := keyLine(g) + keyLine(others[r.Intn("file", len(others))])
			var b []byte
			for _, k := range valid {
				b = append(b, keyLine(k)+"\n"...)
			}
			padTo := boundary - len(keyLine(g))
			for len(b)+2 <= padTo {
				l := padTo - len(b) - 1
				if l > 70 {
					l = 70
				}
				if padTo-len(b)-1-l == 1 { // never leave a single byte to fill
					l--
				}
				b = append(b, (strings.Repeat(" ", l) + "\n")...) // (blank lines: the only filler the parser skips)
			}
			if len(b) == padTo {
				b = append(b, glued+"\n"...)
				b = append(b, "\n"...)
				sf.content = b
				gluedProbe[u] = g
				r.CountFault("fs/malformed-line-across-a-block-boundary", 1)
			}
		}
		switch r.Intn("file", 9) {
		case 0:
			sf.mode = 1
			r.CountFault("fs/missing-file", 1)
		case 1:
			sf.mode = 2
			r.CountFault("fs/open-eacces", 1)
		case 2:
			sf.mode, sf.errAt = 3, r.Intn("file", len(sf.content)+1)
			r.CountFault("fs/read-error-after-k-bytes", 1)
		case 3:
			sf.mode = 4
			r.CountFault("fs/one-byte-reads", 1)
		case 4:
			sf.content = sf.content[:r.Intn("file", len(sf.content)+1)]
			r.CountFault("fs/torn-content", 1)
		case 5:
			sf.content = nil
			r.CountFault("fs/empty-file", 1)
		case 6:
			sf.mode = 5
			r.CountFault("fs/open-eio", 1)
		}
		if r.Intn("file", 10) != 0 {
			sfs.files[keysPath(u)] = sf
		} else {
			r.CountFault("fs/missing-file", 1)
		}
	}
	// reference model of grants: multiset (user,key) -> count, handed out as a whole at most once
	var gmu sync.Mutex
	grants := map[string]int{}
	gkey := func(user string, k keys.DHPublicKey) string { return user + "/" + string(k[:]) }
	addGrant := func(user string, k *keys.X25519KeyPair) {
		in := &authgrants.Intent{GrantType: authgrants.Shell, StartTime: time.Now(), ExpTime: time.Now().Add(time.Hour),
			TargetUsername: user, DelegateCert: *SelfSigned(k.Public, certs.RawStringName("delegate"))}
		// counted at invocation: a login that is confirmed afterwards may have consumed it
		if enableGrants && !noKS {
			gmu.Lock()
			grants[gkey(user, k.Public)]++
			gmu.Unlock()
		}
		if err := hs.AddAuthGrant(in); err == nil {
			r.Logf("grant added for %s", user)
			if noKS {
				// (accepted after all: then it counts)
				gmu.Lock()
				grants[gkey(user, k.Public)]++
				gmu.Unlock()
			}
		} else if noKS {
			r.CountFault("grant-refused-by-a-server-without-key-store", 1)
		} else if enableGrants {
			r.Violate("C05/nofault/add-grant-failed", "AddAuthGrant failed with grants enabled: %v", err)
		}
	}
	allowedByFile := func(user string, k keys.DHPublicKey) bool {
		return modelAllowedKeys(sfs.files[keysPath(user)])[k]
	}

	// concurrent logins and grant additions
	nAttempts := 2 + r.Intn("cfg", 5)
	if sfs.slowP > 0 {
		nAttempts += 4 // more logins in flight at the same time
	}
	var wg sync.WaitGroup
	for i := 0; i < nAttempts; i++ {
		i := i
		key := fmt.Sprintf("login%d", i)
		user := append(users, "mallory", "")[r.Intn(key, len(users)+2)]
		var k *keys.X25519KeyPair
		switch r.Intn(key, 3) {
		case 0:
			k = allKeys[r.Intn(key, len(allKeys))]
		default:
			if ks := userKeys[user]; len(ks) > 0 {
				k = ks[r.Intn(key, len(ks))]
			} else {
				k = stranger
			}
		}
		if enableGrants && r.Intn(key, 3) == 0 {
			gu := users[r.Intn(key, len(users))]
			gk := allKeys[r.Intn(key, len(allKeys))]
			if r.Intn(key, 2) == 0 {
				gu, gk = user, k
			}
			delay := time.Duration(r.Intn(key, 200)) * time.Millisecond
			wg.Add(1)
			r.Go(func() {
				defer wg.Done()
				time.Sleep(delay)
				addGrant(gu, gk)
			})
		}
		if !r.Op(key) {
			continue
		}
		delay := time.Duration(r.Intn(key, 300)) * time.Millisecond
		if sfs.slowP > 0 {
			delay /= 4
		}
		direct := r.Intn(key, 4) == 0
		wg.Add(1)
		r.Go(func() {
			defer wg.Done()
			time.Sleep(delay)
			if direct { // the two authorisation entry points called directly
				err := hs.AuthorizeKey(user, k.Public)
				r.Obligation(1)
				if err == nil && !allowedByFile(user, k.Public) {
					r.Violate("C05/authorizekey-accepts-unlisted-key", "AuthorizeKey(%q) returned nil for a key that is not a well-formed entry of the stored file (%s)", user, describeFile(sfs.files[keysPath(user)]))
				}
				return
			}
			lc, ok, err := dialLogin(r, n, ts, byte(20+i), k, user)
			if lc != nil {
				defer lc.close(r)
			}
			if err != nil {
				r.Logf("login %d: %v", i, err)
				return
			}
			r.Obligation(1)
			if !ok {
				return
			}
			// confirmation byte seen: was it allowed?
			gmu.Lock()
			byGrant := false
			if enableGrants && !allowedByFile(user, k.Public) {
				// every grant-based login needs its own grant addition invoked before the
				// confirmation (the server hands out the whole set present at that moment; which
				// additions were present is not observable, so this is the sound lower bound)
				if grants[gkey(user, k.Public)] > 0 {
					grants[gkey(user, k.Public)]--
					byGrant = true
				}
			}
			gmu.Unlock()
			r.Logf("login %d as %q confirmed (file=%v grant=%v)", i, user, allowedByFile(user, k.Public), byGrant)
			if !allowedByFile(user, k.Public) && !byGrant {
				r.Violate("C05/login-without-listed-key-or-grant", "server confirmed login as %q for a key that is neither a well-formed entry of that user's stored authorized-keys file (%s) nor covered by an unconsumed grant (grants enabled=%v)", user, describeFile(sfs.files[keysPath(user)]), enableGrants)
			}
		})
	}
	wg.Wait()
	time.Sleep(time.Second)
	// keys nobody would generate, and the first halves of glued lines: refused unless they are entries
	var zeroKey, onesKey keys.DHPublicKey
	for i := range onesKey {
		onesKey[i] = 0xff
	}
	for _, u := range users {
		probes := []keys.DHPublicKey{zeroKey, onesKey}
		if g, ok := gluedProbe[u]; ok {
			probes = append(probes, g)
		}
		for _, k := range probes {
			r.Obligation(1)
			if err := hs.AuthorizeKey(u, k); err == nil && !allowedByFile(u, k) {
				r.Violate("C05/authorizekey-accepts-unlisted-key", "AuthorizeKey(%q) returned nil for the key %x…, which is not a well-formed entry of the stored file (%s)", u, k[:6], describeFile(sfs.files[keysPath(u)]))
			}
		}
	}
	// the file is edited while the server runs: a listed key is replaced by another one (an entry of the same
	// length, so the size does not change) and the modification time is preserved (cp -p, rsync -t), lands in
	// the same second, or moves on.  From then on the removed key is not "in that user's file" any more.
	for e := 0; e < r.Intn("edit", 3); e++ {
		u := users[r.Intn("edit", len(users))]
		sf := sfs.files[keysPath(u)]
		if sf == nil || sf.mode != 0 {
			continue
		}
		var old *keys.X25519KeyPair
		for _, k := range userKeys[u] {
			if allowedByFile(u, k.Public) && bytes.Contains(sf.content, []byte(keyLine(k.Public))) {
				old = k
			}
		}
		if old == nil {
			continue
		}
		// the server has seen the file in its old state
		if r.Intn("edit", 4) != 0 {
			hs.AuthorizeKey(u, old.Public)
		}
		fresh := newX25519()
		sfs.mu.Lock()
		sf.content = bytes.ReplaceAll(sf.content, []byte(keyLine(old.Public)), []byte(keyLine(fresh.Public)))
		switch r.Intn("edit", 3) {
		case 0: // preserved
		case 1:
			sf.mtime = time.Now().Truncate(time.Second)
		default:
			sf.mtime = time.Now().Add(time.Duration(1+r.Intn("edit", 100)) * time.Second).Truncate(time.Second)
		}
		sfs.mu.Unlock()
		r.CountFault("fs/file-edited-key-replaced", 1)
		if r.Intn("edit", 3) == 0 {
			time.Sleep(time.Duration(r.Intn("edit", 3000)) * time.Millisecond)
		}
		r.Obligation(1)
		if allowedByFile(u, old.Public) {
			continue // (the key also appears in another form; nothing to judge)
		}
		gmu.Lock()
		covered := grants[gkey(u, old.Public)] > 0
		gmu.Unlock()
		if covered {
			continue
		}
		if err := hs.AuthorizeKey(u, old.Public); err == nil {
			r.Violate("C05/authorizekey-accepts-removed-key", "AuthorizeKey(%q) returned nil for a key whose entry was replaced in the stored file (now: %s)", u, describeFile(sf))
		}
		if r.Intn("edit", 2) == 0 {
			lc, ok, err := dialLogin(r, n, ts, byte(60+e), old, u)
			if lc != nil {
				lc.close(r)
			}
			if err == nil && ok {
				r.Violate("C05/login-with-removed-key", "server confirmed login as %q for a key whose entry had been replaced in the stored authorized-keys file (now: %s)", u, describeFile(sf))
			}
		}
		if err := hs.AuthorizeKey(u, fresh.Public); err != nil {
			r.Probe("edited-in-key-refused")
		}
	}
	// conservation of grants under concurrent additions and consumptions through the two
	// entry points: every added grant is handed out at most once, none is lost
	if enableGrants {
		r.ArmYields([]string{"hopserver.", "authgrants."}, 1+r.Intn("cons", 4), 1+r.Intn("cons", 10), []float64{0.3, 1}[r.Intn("cons", 2)])
		r.YieldsOn(true)
		defer r.YieldsOn(false)
		gu := "carol"
		gk := newX25519()
		added, handed := 0, 0
		var cm sync.Mutex
		var cw sync.WaitGroup
		for w := 0; w < 2+r.Intn("cons", 4); w++ {
			w := w
			cw.Add(1)
			r.Go(func() {
				defer cw.Done()
				key := fmt.Sprintf("cons%d", w)
				for k := 0; k < 1+r.Intn(key, 4); k++ {
					time.Sleep(time.Duration(r.Intn(key, 20)) * time.Millisecond)
					if r.Intn(key, 2) == 0 {
						in := &authgrants.Intent{GrantType: authgrants.Command, StartTime: time.Now(), ExpTime: time.Now().Add(time.Hour),
							TargetUsername: gu, DelegateCert: *SelfSigned(gk.Public, certs.RawStringName("delegate"))}
						if hs.AddAuthGrant(in) == nil {
							cm.Lock()
							added++
							cm.Unlock()
						}
					} else {
						ags, err := hs.AuthorizeKeyAuthGrant(gu, gk.Public)
						if err == nil {
							cm.Lock()
							handed += len(ags)
							cm.Unlock()
						}
					}
				}
			})
		}
		cw.Wait()
		left := hs.VerifGrantCount(gu, gk.Public)
		r.Obligation(1)
		if handed+left != added {
			r.Violate("C05/grants-not-conserved", "%d grants added, %d handed out by AuthorizeKeyAuthGrant, %d still stored: a grant was handed out twice or lost", added, handed, left)
		}
	}
	// grants switched off at run time (the configuration is live): a grant that was added while they
	// were enabled must no longer admit anybody
	if enableGrants && r.Intn("toggle", 2) == 0 {
		tu := users[r.Intn("toggle", len(users))]
		tk := newX25519()
		in := &authgrants.Intent{GrantType: authgrants.Shell, StartTime: time.Now(), ExpTime: time.Now().Add(time.Hour),
			TargetUsername: tu, DelegateCert: *SelfSigned(tk.Public, certs.RawStringName("delegate"))}
		if hs.AddAuthGrant(in) == nil {
			srvCfg.EnableAuthgrants = false
			r.CountFault("grants-disabled-at-runtime", 1)
			time.Sleep(10 * time.Millisecond)
			if _, err := hs.AuthorizeKeyAuthGrant(tu, tk.Public); err == nil && !allowedByFile(tu, tk.Public) {
				r.Violate("C05/grant-honoured-while-grants-disabled", "AuthorizeKeyAuthGrant handed out a grant although authorization grants are disabled")
			}
			lc, ok, err := dialLogin(r, n, ts, 200, tk, tu)
			if lc != nil {
				lc.close(r)
			}
			r.Obligation(1)
			if err == nil && ok && !allowedByFile(tu, tk.Public) {
				r.Violate("C05/grant-honoured-while-grants-disabled", "server confirmed a login as %q that only a grant could justify, although authorization grants had been disabled", tu)
			}
			srvCfg.EnableAuthgrants = true
		}
	}
	r.Sample = append(r.Sample, fmt.Sprintf("attempts=%d grants=%v", nAttempts, enableGrants))
	WithTimeout(r, time.Minute, func() { hs.Close() })
	time.Sleep(5 * time.Second)
	_ = bytes.Equal
}

func describeFile(sf *simFile) string {
	if sf == nil {
		return "no such file"
	}
	mode := []string{"readable", "missing", "open fails EACCES", "read error after k bytes", "one-byte reads", "open fails EIO"}[sf.mode]
	c := string(sf.content)
	if len(c) > 160 {
		c = c[:160] + "…"
	}
	return fmt.Sprintf("%s, %d bytes, errAt=%d, content %q", mode, len(sf.content), sf.errAt, c)
}
