package sim

import (
	"errors"
	"fmt"
	"io"
	"net"
	"os"
	"sort"
	"strings"
	"time"

	"github.com/anishathalye/porcupine"

	"hop.computer/hop/transport"
)

// C17 (b,c,d) — transport connections are safe under concurrent use.

func init() {
	Register(&Scenario{Name: "transport-concurrency", Property: "C17", Fn: scTConc, After: tconcAfter, Yields: true, LeakClass: "C17/transport-goroutine-leak"})
}

const (
	tRead = iota
	tReadMsg
	tWrite
	tWriteMsg
	tSetReadDeadline
	tSetDeadline
	tClose
	tHandshake
	tAccept
	tServe
	tServerClose
)

var tOpNames = []string{"Read", "ReadMsg", "Write", "WriteMsg", "SetReadDeadline", "SetDeadline", "Close", "Handshake", "AcceptTimeout", "Serve", "Server.Close"}

func classifyT(err error) int {
	switch {
	case err == nil:
		return ErrNone
	case errors.Is(err, io.EOF):
		return ErrEOF
	case errors.Is(err, os.ErrDeadlineExceeded):
		return ErrTimeout
	case errors.Is(err, transport.ErrBufOverflow):
		return ErrBufOverflow
	case errors.Is(err, net.ErrClosed):
		return ErrClosedConn
	}
	var ne net.Error
	if errors.As(err, &ne) && ne.Timeout() {
		return ErrTimeout
	}
	return ErrOther
}

type tconn interface {
	Read([]byte) (int, error)
	ReadMsg([]byte) (int, error)
	Write([]byte) (int, error)
	WriteMsg([]byte) error
	SetReadDeadline(time.Time) error
	SetDeadline(time.Time) error
	Close() error
}

type tconcAux struct {
	hsInProgram bool
	halfSilent  bool
	preloaded   int
	mode        int
	otherErrs   []string
}

func scTConc(r *Run) {
	n := NewNet(r)
	defer n.Stop()
	n.Quiet = true
	n.Cfg.Latency = time.Duration(1+r.Intn("cfg", 5)) * time.Millisecond
	mode := r.Intn("cfg", 4) // 0 client vs live server, 1 client vs silent server, 2 server handle, 3 server lifecycle
	hidden := r.Intn("cfg", 2) == 0
	r.SetCfg("mode", []string{"client/live", "client/silent", "handle", "server"}[mode])
	r.SetCfg("hidden", hidden)
	aux := &tconcAux{mode: mode}
	r.Aux = aux
	h := &r.Hist
	r.ArmYields([]string{"transport.", "common."}, 1+r.Intn("cfg", 6), 1+r.Intn("cfg", 25), []float64{0.05, 0.3, 1}[r.Intn("cfg", 3)])

	if mode == 3 {
		scServerLifecycle(r, n, hidden)
		return
	}

	var srv *TServer
	var reg *HandleRegistry
	if mode != 1 {
		srv = StartServer(r, n, ServerOpts{Hidden: hidden, HSTimeout: 2 * time.Second})
		reg = NewHandleRegistry(r, srv.Srv)
	} else {
		// nobody answers at the server address
		srv = &TServer{Addr: Addr(1, 77), PKI: NewPKI("x"), Name: dnsName("server.sim")}
		kem := newKEM()
		srv.KEM = kem
	}
	// how the handshake is bounded: by the relative timeout, by an absolute deadline, or by both
	bound := r.Intn("cfg", 3)
	copts := ClientOpts{Hidden: hidden, HSTimeout: 2 * time.Second}
	if bound > 0 {
		dl := time.Now().Add(2 * time.Second)
		copts.Mutate = func(cfg *transport.ClientConfig) {
			cfg.HSDeadline = dl
			if bound == 1 {
				cfg.HSTimeout = 0
			} else {
				cfg.HSTimeout = 5 * time.Second // (the deadline is the binding one)
			}
		}
	}
	r.SetCfg("handshake-bound", []string{"HSTimeout", "HSDeadline", "both, deadline first"}[bound])
	tc := NewTClient(r, n, srv, copts)
	var conn tconn = tc.C
	var peerWrite func([]byte) error
	handshakeInProgram := mode == 1 || r.Intn("cfg", 3) == 0
	if mode == 2 {
		handshakeInProgram = false
	}
	// a server that falls silent in the middle of the handshake: its first answer arrives, the second is lost
	if mode == 0 && !hidden && r.Intn("cfg", 4) == 0 {
		handshakeInProgram = true
		aux.halfSilent = true
		n.Tap = func(d *Dgram) bool {
			if len(d.Data) > 0 && d.Data[0] == 0x04 {
				r.CountFault("server-auth-lost", 1)
				return false
			}
			return true
		}
	}
	aux.hsInProgram = handshakeInProgram
	if !handshakeInProgram {
		if err := tc.C.Handshake(); err != nil {
			r.Violate("C17/nofault/handshake-failed", "%v", err)
			return
		}
		hd := reg.For(tc.C, 5*time.Second)
		if hd == nil {
			r.Violate("C17/nofault/accept-failed", "no handle")
			return
		}
		if mode == 2 {
			conn = hd
			peerWrite = tc.C.WriteMsg
		} else {
			peerWrite = hd.WriteMsg
		}
		// data queued before anything else happens: it must come out before end-of-stream
		aux.preloaded = r.Intn("cfg", 6)
		for i := 1; i <= aux.preloaded; i++ {
			peerWrite(tconcMsg(i))
		}
		time.Sleep(100 * time.Millisecond)
	}

	// the program is drawn completely before any worker starts
	type pop struct {
		op    int
		arg   int64
		pause time.Duration
	}
	nG := 2 + r.Intn("cfg", 5)
	progs := make([][]pop, nG)
	desc := []string{}
	for g := range progs {
		for k := 0; k < 1+r.Intn("cfg", 4); k++ {
			if !r.Op(fmt.Sprintf("g%d", g)) {
				continue
			}
			var o pop
			switch x := r.Intn("op", 16); {
			case x < 3:
				o.op = tRead
				o.arg = []int64{0, 0, 3, 5, 1}[r.Intn("op", 5)] // 0 = large buffer; otherwise shorter than a message
			case x < 6:
				o.op = tReadMsg
			case x < 8:
				o.op = tWrite
			case x < 10:
				o.op = tWriteMsg
			case x < 12:
				o.op, o.arg = tSetReadDeadline, []int64{-1, 0, int64(1 + r.Intn("op", 30)), int64(50 + r.Intn("op", 300))}[r.Intn("op", 4)]
			case x < 13:
				o.op, o.arg = tSetDeadline, []int64{-1, 0, int64(1 + r.Intn("op", 30)), int64(50 + r.Intn("op", 300))}[r.Intn("op", 4)]
			case x < 15:
				o.op = tClose
			default:
				o.op = tHandshake
				if mode == 2 {
					o.op = tReadMsg
				}
			}
			if r.Intn("op", 3) == 0 {
				o.pause = time.Duration(r.Intn("op", 60)) * time.Millisecond
			}
			if r.Intn("op", 12) == 0 {
				// long enough for a handshake in the program to have timed out or failed meanwhile (HSTimeout
				// is 2 s): the operation then meets the connection in its error state
				o.pause = time.Duration(1500+r.Intn("op", 2500)) * time.Millisecond
			}
			progs[g] = append(progs[g], o)
			desc = append(desc, fmt.Sprintf("g%d:%s(%d)", g, tOpNames[o.op], o.arg))
		}
	}
	if handshakeInProgram && len(progs[0]) > 0 {
		progs[0][0].op = tHandshake
	}
	r.Sample = append(r.Sample, strings.Join(desc, " "))
	r.YieldsOn(true)
	done := make(chan int, nG)
	deadlineOf := func(arg int64) time.Time {
		switch {
		case arg < 0:
			return time.Now().Add(-time.Second)
		case arg > 0:
			return time.Now().Add(time.Duration(arg) * time.Millisecond)
		}
		return time.Time{}
	}
	for g := range progs {
		g := g
		r.Go(func() {
			buf := make([]byte, 4096)
			for _, o := range progs[g] {
				if o.pause > 0 {
					time.Sleep(o.pause)
				}
				id := h.Invoke(g, o.op, o.arg)
				switch o.op {
				case tRead, tReadMsg:
					var k int
					var err error
					if o.op == tRead {
						b := buf
						if o.arg > 0 {
							b = buf[:o.arg] // a short buffer: the rest of the message stays for the next read
						}
						k, err = conn.Read(b)
					} else {
						k, err = conn.ReadMsg(buf)
					}
					v := int64(0)
					if err == nil {
						v = tconcDecode(buf[:k])
					}
					h.Return(id, v, classifyT(err))
				case tWrite:
					_, err := conn.Write([]byte("program-write"))
					h.Return(id, 0, classifyT(err))
				case tWriteMsg:
					h.Return(id, 0, classifyT(conn.WriteMsg([]byte("program-writemsg"))))
				case tSetReadDeadline:
					h.Return(id, 0, classifyT(conn.SetReadDeadline(deadlineOf(o.arg))))
				case tSetDeadline:
					h.Return(id, 0, classifyT(conn.SetDeadline(deadlineOf(o.arg))))
				case tClose:
					err := conn.Close()
					code := ErrNone
					if err != nil {
						code = ErrOther
					}
					h.Return(id, 0, code)
				case tHandshake:
					t0 := time.Now()
					err := tc.C.Handshake()
					h.Return(id, int64(time.Since(t0)/time.Millisecond), classifyT(err))
				}
			}
			done <- g
		})
	}
	// release: the harness closes the connection; everything still blocked must come back
	finished := 0
	wait := time.After(8 * time.Second)
	released := false
	releaserDone := make(chan struct{})
loop:
	for finished < nG {
		select {
		case <-done:
			finished++
		case <-wait:
			if !released {
				released = true
				r.Go(func() {
					defer close(releaserDone)
					id := h.Invoke(99, tClose, 0)
					err := conn.Close()
					code := ErrNone
					if err != nil {
						code = ErrOther
					}
					h.Return(id, 0, code)
				})
				wait = time.After(30 * time.Second)
				continue
			}
			break loop
		}
	}
	r.YieldsOn(false)
	r.Obligation(1)
	if finished < nG {
		pending := []string{}
		for _, e := range h.Events() {
			if e.Ret == 0 {
				pending = append(pending, fmt.Sprintf("g%d:%s(%d)", e.G, tOpNames[e.Op], e.Arg))
			}
		}
		r.NoLeakCheck = true
		r.Violate("C17/call-never-returns/"+tOpNames[firstPending(h)], "mode %s hidden=%v: operations still blocked 30 simulated seconds after Close: %s; goroutines:\n  %s",
			[]string{"client/live", "client/silent", "handle", "server"}[mode], hidden, strings.Join(pending, ", "), BlockedSummary())
	} else {
		// after close completed: writes fail, reads drain what was queued and then report end-of-stream
		if released {
			// (the harness's own Close has released every operation of the program; it may itself still be on its
			// way, e.g. held in a yield: "after Close had returned" starts when it has)
			select {
			case <-releaserDone:
			case <-time.After(30 * time.Second):
				r.NoLeakCheck = true
				r.Violate("C17/call-never-returns/Close", "mode %s hidden=%v: the Close that released the program's operations is itself still blocked 30 simulated seconds later; goroutines:\n  %s",
					[]string{"client/live", "client/silent", "handle", "server"}[mode], hidden, BlockedSummary())
				return
			}
		}
		if !released {
			id := h.Invoke(99, tClose, 0)
			var err error
			if !WithTimeout(r, 30*time.Second, func() { err = conn.Close() }) {
				r.NoLeakCheck = true
				r.Violate("C17/call-never-returns/Close", "mode %s hidden=%v: Close, called after every other operation had returned, is still blocked 30 simulated seconds later; goroutines:\n  %s",
					[]string{"client/live", "client/silent", "handle", "server"}[mode], hidden, BlockedSummary())
				return
			}
			code := ErrNone
			if err != nil {
				code = ErrOther
			}
			h.Return(id, 0, code)
		}
		if _, err := conn.Write([]byte("after-close")); err == nil {
			r.Violate("C17/write-after-close-succeeds", "Write returned nil after Close had returned")
		}
		buf := make([]byte, 4096)
		for i := 0; i < 50; i++ {
			id := h.Invoke(98, tReadMsg, 0)
			var k int
			var err error
			if !WithTimeout(r, 10*time.Second, func() { k, err = conn.ReadMsg(buf) }) {
				r.Violate("C17/read-after-close-blocks", "ReadMsg blocks after Close completed")
				break
			}
			v := int64(0)
			if err == nil {
				v = tconcDecode(buf[:k])
			}
			h.Return(id, v, classifyT(err))
			if err != nil {
				break
			}
		}
	}
	// (teardown of the rest of the world; bounded, a Close that hangs here was judged above or is not the
	// connection under test)
	if srv.Srv != nil {
		if !WithTimeout(r, 60*time.Second, func() { srv.Srv.Close() }) {
			r.NoLeakCheck = true
			r.Probe("teardown-server-close-did-not-return")
		}
	}
	if conn != tconn(tc.C) {
		if !WithTimeout(r, 60*time.Second, func() { tc.C.Close() }) {
			r.NoLeakCheck = true
			r.Probe("teardown-client-close-did-not-return")
		}
	}
	time.Sleep(5 * time.Second)
	for _, e := range h.Events() {
		r.Logf("g%d %s(%d) call=%d ret=%d out=%d err=%d", e.G, tOpNames[e.Op], e.Arg, e.Call, e.Ret, e.Out, e.Err)
	}
}

func firstPending(h *History) int {
	for _, e := range h.Events() {
		if e.Ret == 0 {
			return e.Op
		}
	}
	return 0
}

func scServerLifecycle(r *Run, n *Net, hidden bool) {
	h := &r.Hist
	ts := &TServer{Addr: Addr(1, 77), PKI: NewPKI("ca"), Name: dnsName("server.sim")}
	ts.Key = newX25519()
	ts.KEM = newKEM()
	ts.Leaf = ts.PKI.Leaf(ts.Key.Public, 24*time.Hour, ts.Name)
	ts.EP = n.Listen("server", ts.Addr, nil)
	if r.Intn("cfg", 3) == 0 {
		ts.EP.CloseErr = errors.New("sim: close reports an I/O error") // every Close caller must see the same result
		r.CountFault("socket-close-reports-error", 1)
	}
	srv, err := transport.NewServer(ts.EP, transport.ServerConfig{KeyPair: ts.Key, KEMKeyPair: ts.KEM, Certificate: ts.Leaf, Intermediate: ts.PKI.Int,
		HandshakeTimeout: 2 * time.Second, ClientVerify: &transport.VerifyConfig{InsecureSkipVerify: true}, IsHidden: hidden, MaxPendingConnections: 1 + r.Intn("cfg", 3)})
	must(err)
	nClients := r.Intn("cfg", 4)
	nG := 2 + r.Intn("cfg", 4)
	type pop struct {
		op    int
		arg   int64
		pause time.Duration
	}
	progs := make([][]pop, nG)
	desc := []string{}
	for g := range progs {
		for k := 0; k < 1+r.Intn("cfg", 3); k++ {
			if !r.Op(fmt.Sprintf("g%d", g)) {
				continue
			}
			var o pop
			switch x := r.Intn("op", 8); {
			case x < 2:
				o.op = tServe
			case x < 6:
				o.op, o.arg = tAccept, int64(1+r.Intn("op", 500))
			default:
				o.op = tServerClose
			}
			if r.Intn("op", 2) == 0 {
				o.pause = time.Duration(r.Intn("op", 100)) * time.Millisecond
			}
			progs[g] = append(progs[g], o)
			desc = append(desc, fmt.Sprintf("g%d:%s(%d)", g, tOpNames[o.op], o.arg))
		}
	}
	r.Sample = append(r.Sample, strings.Join(desc, " "))
	r.YieldsOn(true)
	var clients []*TClient
	for i := 0; i < nClients; i++ {
		tc := NewTClient(r, n, ts, ClientOpts{Addr: Addr(byte(10+i), 4000+i), Hidden: hidden, HSTimeout: time.Second})
		clients = append(clients, tc)
		delay := time.Duration(r.Intn("cfg", 300)) * time.Millisecond
		r.Go(func() {
			time.Sleep(delay)
			WithTimeout(r, 20*time.Second, func() { tc.C.Handshake() })
		})
	}
	done := make(chan int, nG)
	for g := range progs {
		g := g
		r.Go(func() {
			for _, o := range progs[g] {
				if o.pause > 0 {
					time.Sleep(o.pause)
				}
				id := h.Invoke(g, o.op, o.arg)
				switch o.op {
				case tServe:
					err := srv.Serve()
					code := ErrNone
					if err != nil {
						code = ErrOther // "Serve called on non-ready Server" for a second Serve: fine
					}
					h.Return(id, 0, code)
				case tAccept:
					hd, err := srv.AcceptTimeout(time.Duration(o.arg) * time.Millisecond)
					v := int64(0)
					if hd != nil {
						v = 1
					}
					h.Return(id, v, classifyT(err))
				case tServerClose:
					err := srv.Close()
					code := ErrNone
					if err != nil {
						code = ErrOther
					}
					h.Return(id, 0, code)
				}
			}
			done <- g
		})
	}
	finished := 0
	wait := time.After(8 * time.Second)
	released := false
loop:
	for finished < nG {
		select {
		case <-done:
			finished++
		case <-wait:
			if !released {
				released = true
				r.Go(func() {
					id := h.Invoke(99, tServerClose, 0)
					err := srv.Close()
					code := ErrNone
					if err != nil {
						code = ErrOther
					}
					h.Return(id, 0, code)
				})
				wait = time.After(30 * time.Second)
				continue
			}
			break loop
		}
	}
	r.YieldsOn(false)
	r.Obligation(1)
	if finished < nG {
		pending := []string{}
		for _, e := range h.Events() {
			if e.Ret == 0 {
				pending = append(pending, fmt.Sprintf("g%d:%s(%d)", e.G, tOpNames[e.Op], e.Arg))
			}
		}
		r.NoLeakCheck = true
		r.Violate("C17/call-never-returns/"+tOpNames[firstPending(h)], "server lifecycle: operations still blocked 30 simulated seconds after Server.Close: %s; goroutines:\n  %s", strings.Join(pending, ", "), BlockedSummary())
	}
	if !released {
		WithTimeout(r, 30*time.Second, func() { srv.Close() })
	}
	for i, c := range clients {
		c := c
		if !WithTimeout(r, 60*time.Second, func() { c.C.Close() }) {
			r.NoLeakCheck = true
			r.Violate("C17/call-never-returns/Close", "server lifecycle: Close of client %d (whose Handshake ran while the server was being closed) is still blocked 60 simulated seconds later; goroutines:\n  %s", i, BlockedSummary())
			break
		}
	}
	time.Sleep(25 * time.Second)
	for _, e := range h.Events() {
		r.Logf("g%d %s(%d) call=%d ret=%d out=%d err=%d", e.G, tOpNames[e.Op], e.Arg, e.Call, e.Ret, e.Out, e.Err)
	}
}

// connModel: the receive side of a connection as a FIFO preloaded with the
// messages that were queued before the program started, plus close.
type connState struct {
	next   int64 // next preloaded message to come out
	off    int64 // bytes of it that earlier short reads have taken already
	last   int64 // number of preloaded messages
	closed bool
}

// tconcMsg is preloaded message i: 8 bytes, each naming its message and its offset in it, so that every
// byte of the receive stream is unique.
func tconcMsg(i int) []byte {
	b := make([]byte, 8)
	for j := range b {
		b[j] = byte(i<<4 | j)
	}
	return b
}

// tconcDecode turns what a read returned into (first byte)<<8 | count, or a negative value if the bytes
// are not a contiguous piece of one preloaded message.
func tconcDecode(b []byte) int64 {
	if len(b) == 0 || len(b) > 8 || int(b[0]&0xf)+len(b) > 8 {
		return -int64(len(b)) - 1
	}
	for j := range b {
		if b[j] != b[0]+byte(j) {
			return -1000 - int64(j)
		}
	}
	return int64(b[0])<<8 | int64(len(b))
}

func tconcAfter(r *Run) {
	aux, _ := r.Aux.(*tconcAux)
	if aux == nil {
		return
	}
	evs := r.Hist.Events()
	// error classes and idempotent close
	closeCodes := map[int]bool{}
	for _, e := range evs {
		if e.Ret == 0 {
			return
		}
		switch e.Op {
		case tClose, tServerClose:
			closeCodes[e.Err] = true
		case tServe:
		default:
			// (a write or handshake that loses the race against Close may report the closed
			// socket; the statement asks for end-of-stream from calls that were blocked)
			if e.Err == ErrOther || (e.Err == ErrClosedConn && (e.Op == tRead || e.Op == tReadMsg || e.Op == tAccept)) {
				r.Violate("C17/unexpected-error/"+tOpNames[e.Op], "g%d %s(%d) returned an error that is neither end-of-stream nor a timeout (class %d)", e.G, tOpNames[e.Op], e.Arg, e.Err)
				return
			}
		}
	}
	r.Obligation(int64(len(evs)))
	for _, e := range evs {
		// a handshake against a silent server is released by its own timeout (HSTimeout = 2 s), with a timeout error
		if (aux.mode == 1 || aux.halfSilent) && e.Op == tHandshake && e.Out > 7500 {
			r.Violate("C17/handshake-timeout-not-honoured", "Handshake against a server that never answers (or falls silent after its first answer: %v) returned only after %d ms (when the connection was closed); the handshake timeout / deadline is 2000 ms", aux.halfSilent, e.Out)
			break
		}
	}
	if len(closeCodes) > 1 {
		r.Violate("C17/close-results-differ", "Close callers got different results")
	}
	// A timeout needs a deadline.  On a connection whose handshake was complete before the program began, a
	// read that returns a timeout at instant T must be justified by a SetReadDeadline/SetDeadline call with a
	// non-zero instant <= T that was invoked before the read returned and was not certainly replaced (by a
	// successful deadline call that began after it had returned and had itself returned before the read was
	// invoked).  (While a handshake is part of the program its own timeout is a legitimate source.)
	if !aux.hsInProgram && (aux.mode == 0 || aux.mode == 2) && !r.Failed() {
		isDl := func(op int) bool { return op == tSetReadDeadline || op == tSetDeadline }
		for _, e := range evs {
			if (e.Op != tRead && e.Op != tReadMsg) || e.Err != ErrTimeout {
				continue
			}
			r.Obligation(1)
			justified := false
			for _, d := range evs {
				if !isDl(d.Op) || d.Arg == 0 || d.Call > e.Ret {
					continue
				}
				at := d.At + d.Arg*int64(time.Millisecond)
				if d.Arg < 0 {
					at = d.At - int64(time.Second)
				}
				if at > e.RetAt {
					continue
				}
				replaced := false
				for _, d2 := range evs {
					if isDl(d2.Op) && d2.Err == ErrNone && d2.Call > d.Ret && d2.Ret < e.Call {
						replaced = true
						break
					}
				}
				if !replaced {
					justified = true
					break
				}
			}
			if !justified {
				sort.Slice(evs, func(i, j int) bool { return evs[i].Call < evs[j].Call })
				lines := []string{}
				for _, x := range evs {
					lines = append(lines, fmt.Sprintf("[%d,%d] t=%.3f..%.3fms g%d %s(%d) -> out=%d err=%s", x.Call, x.Ret, float64(x.At-evs[0].At)/1e6, float64(x.RetAt-evs[0].At)/1e6, x.G, tOpNames[x.Op], x.Arg, x.Out, []string{"nil", "EOF", "timeout", "cancelled", "other", "bufoverflow", "closedconn"}[x.Err]))
				}
				r.Violate("C17/timeout-without-deadline", "g%d %s on an established connection returned a timeout although no read deadline that was in force during the call had been reached when it returned:\n  %s", e.G, tOpNames[e.Op], strings.Join(lines, "\n  "))
				return
			}
		}
	}
	if aux.mode == 3 || aux.mode == 1 {
		return
	}
	model := porcupine.Model{
		Init: func() interface{} { return connState{next: 1, last: int64(aux.preloaded)} },
		Step: func(state, input, output interface{}) (bool, interface{}) {
			st := state.(connState)
			e := input.(HistEv)
			switch e.Op {
			case tRead, tReadMsg:
				switch e.Err {
				case ErrNone:
					if e.Out <= 0 || st.next > st.last { // not a piece of a preloaded message (nothing else is ever sent)
						return false, st
					}
					// the next bytes of the stream: the rest of the current message, as far as the buffer goes
					k := 8 - st.off
					if e.Op == tRead && e.Arg > 0 && e.Arg < k {
						k = e.Arg
					}
					if e.Out != (st.next<<4|st.off)<<8|k {
						return false, st
					}
					st.off += k
					if st.off == 8 {
						st.next, st.off = st.next+1, 0
					}
					return true, st
				case ErrEOF:
					return st.closed && st.next > st.last, st
				case ErrTimeout:
					return true, st
				}
				return false, st
			case tClose:
				st.closed = true
				return true, st
			case tWrite, tWriteMsg:
				if e.Err == ErrNone {
					return !st.closed, st
				}
				return (e.Err == ErrEOF || e.Err == ErrClosedConn) && st.closed || e.Err == ErrTimeout, st
			case tHandshake:
				if e.Err == ErrEOF || e.Err == ErrClosedConn {
					return st.closed, st
				}
				return true, st
			}
			return true, st
		},
		Equal: func(a, b interface{}) bool { return a.(connState) == b.(connState) },
	}
	ops := []porcupine.Operation{}
	for _, e := range evs {
		ops = append(ops, porcupine.Operation{ClientId: e.G % 100, Input: e, Call: e.Call, Output: e, Return: e.Ret})
	}
	switch porcupine.CheckOperationsTimeout(model, ops, 20*time.Second) {
	case porcupine.Illegal:
		sort.Slice(evs, func(i, j int) bool { return evs[i].Call < evs[j].Call })
		lines := []string{}
		for _, e := range evs {
			lines = append(lines, fmt.Sprintf("[%d,%d] g%d %s(%d) -> out=%d err=%s", e.Call, e.Ret, e.G, tOpNames[e.Op], e.Arg, e.Out, []string{"nil", "EOF", "timeout", "cancelled", "other", "bufoverflow", "closedconn"}[e.Err]))
		}
		r.Violate("C17/connection-history-not-linearizable", "no linearization satisfies the connection model (%d messages queued before the program; every byte returned at most once, in order, a read returning the rest of the current message as far as its buffer goes, before end-of-stream; end-of-stream and failing writes only after Close):\n  %s", aux.preloaded, strings.Join(lines, "\n  "))
	case porcupine.Unknown:
		r.Probe("porcupine-inconclusive")
	}
}
