package sim

import (
	"encoding/binary"
	"errors"
	"fmt"
	"io"
	"net"
	"os"
	"sync"
	"time"

	"hop.computer/hop/transport"
	"hop.computer/hop/tubes"
)

// C16 — tube and muxer shutdown always terminates and is clean.

func init() {
	Register(&Scenario{Name: "tube-shutdown", Property: "C16", Fn: scShutdown, Yields: true, LeakClass: "C16/goroutine-leak"})
}

type shutEnd struct {
	name     string
	t        tubes.Tube
	rel      bool
	wsalt    uint64 // content this end writes
	rsalt    uint64 // content this end must read
	woff     int64
	roff     int64
	rmsg     map[uint64]bool
	closed   bool // local Close returned
	closedAt time.Duration
	waited   bool
	mux      *tubes.Muxer
	muxName  string
}

func unrelMsg(salt uint64, i uint64, n int) []byte {
	b := make([]byte, 8+n)
	binary.BigEndian.PutUint64(b, i)
	streamFill(b[8:], salt^i*0x9E3779B97F4A7C15, 0)
	return b
}

func scShutdown(r *Run) {
	n := NewNet(r)
	defer n.Stop()
	n.Quiet = r.Tier != "trace"
	n.Describe = FrameDesc
	n.Cfg.Latency = time.Duration(1+r.Intn("cfg", 30)) * time.Millisecond
	netMode := r.Intn("cfg", 6) // 0 healthy, 1 lossy, 2 dead from the start, 3 dies at T, 4 one-way death at T, 5 lossy then dies
	deathAt := time.Duration(50+r.Intn("cfg", 3000)) * time.Millisecond
	if netMode == 1 || netMode == 5 {
		n.Cfg.PDrop = 0.05 + r.Float("cfg")*0.5
		n.Cfg.PDup = r.Float("cfg") * 0.2
		n.Cfg.Jitter = time.Duration(r.Intn("cfg", 50)) * time.Millisecond
	}
	r.SetCfg("net", []string{"healthy", "lossy", "dead", "dies", "one-way-death", "lossy-then-dies"}[netMode])
	mp := NewPairMaybeStack(r, n, 8, "C16")
	if mp == nil {
		return
	}
	defer mp.Teardown(r)
	dead := func(now time.Duration) bool {
		switch netMode {
		case 2:
			return true
		case 3, 4, 5:
			return now >= deathAt
		}
		return false
	}
	n.Blocked = func(src, dst *net.UDPAddr, now time.Duration) bool {
		if !dead(now) {
			return false
		}
		if netMode == 4 && src.String() == mp.AddrA.String() {
			return false
		}
		return true
	}
	alwaysAlive := netMode <= 1

	r.ArmYields([]string{"tubes."}, 1+r.Intn("cfg", 6), 1+r.Intn("cfg", 30), []float64{0.05, 0.2, 0.5, 1}[r.Intn("cfg", 4)])
	r.YieldsOn(true)

	var mu sync.Mutex
	var ends []*shutEnd
	// foreignClass names the class of a "read returned bytes nobody wrote there" violation.  When the identifier of
	// the tube has been used by more than one tube instance in this run, frames of the other instance can be the
	// source: frames carry no instance number (the listed finding D20, which needs a protocol change; judged in
	// its own right by C09).  Foreign bytes on a tube whose identifier was used once remain unlisted.
	foreignClass := func(e *shutEnd) string {
		mu.Lock()
		defer mu.Unlock()
		n := 0
		for _, o := range ends {
			if o.muxName == e.muxName && o.rel == e.rel && o.t.GetID() == e.t.GetID() {
				n++
			}
		}
		if n > 1 {
			return "C16/read-returns-foreign-bytes/identifier-reused"
		}
		// (the peer may have opened its second instance while this side has not accepted it yet)
		m := 0
		for _, o := range ends {
			if o.muxName != e.muxName && o.rel == e.rel && o.t.GetID() == e.t.GetID() {
				m++
			}
		}
		if m > 1 {
			return "C16/read-returns-foreign-bytes/identifier-reused"
		}
		return "C16/read-returns-foreign-bytes"
	}
	stopCalled := map[string]time.Duration{}
	var opWG sync.WaitGroup
	muxOf := map[string]*tubes.Muxer{"A": mp.A, "B": mp.B}

	// bounded call helper: runs f, reports a violation if it does not return within d
	bounded := func(class, what string, d time.Duration, f func()) bool {
		ok := WithTimeout(r, d, f)
		r.Obligation(1)
		if !ok {
			r.Violate(class, "%s did not return within %v of simulated time (net=%d, dead since %v); goroutines:\n  %s", what, d, netMode, deathAt, BlockedSummary())
		}
		return ok
	}

	runEnd := func(e *shutEnd) {
		defer opWG.Done()
		key := e.name
		nOps := 1 + r.Intn(key, 8)
		for i := 0; i < nOps; i++ {
			if !r.Op(key) {
				continue
			}
			op := r.Intn(key, 10)
			switch {
			case op < 3: // write
				var b []byte
				if e.rel {
					b = make([]byte, 1+r.Intn(key, 5000))
					if r.Intn(key, 8) == 0 {
						// far more than a window of frames: the tube's sender goroutine is still feeding frames
						// when closes, stops and timers arrive
						b = make([]byte, 200000+r.Intn(key, 1300000))
						r.CountFault("write-larger-than-window", 1)
					}
					streamFill(b, e.wsalt, e.woff)
				} else {
					b = unrelMsg(e.wsalt, uint64(e.woff), r.Intn(key, 500))
				}
				var k int
				var err error
				wasClosed := e.closed
				// (Write and Read on a tube whose initiation has not completed block until it does;
				// that is outside the statement of C16, so a timeout only ends this end's program)
				if !WithTimeout(r, 60*time.Second, func() { k, err = e.t.Write(b) }) {
					r.Probe("write-blocked-on-uninitiated-tube")
					return
				}
				if err == nil {
					if e.rel {
						e.woff += int64(k)
					} else {
						e.woff++
					}
				}
				r.Obligation(1)
				if wasClosed && err == nil {
					r.Violate("C16/write-after-close-succeeds", "%s: Write returned nil after the local Close had returned", e.name)
				}
			case op < 6: // read with a deadline
				buf := make([]byte, 1+r.Intn(key, 9000))
				dl := time.Duration(10+r.Intn(key, 500)) * time.Millisecond
				var k int
				var err error
				if !WithTimeout(r, 60*time.Second, func() {
					e.t.SetReadDeadline(time.Now().Add(dl))
					k, err = e.t.Read(buf)
				}) {
					r.Probe("read-blocked-on-uninitiated-tube")
					return
				}
				if k > 0 {
					r.Obligation(1)
					if e.rel {
						if bad := streamCheck(buf[:k], e.rsalt, e.roff); bad >= 0 {
							r.Violate(foreignClass(e), "%s: Read returned bytes that were not written at stream offset %d", e.name, e.roff+int64(bad))
						}
						e.roff += int64(k)
					} else if errors.Is(err, transport.ErrBufOverflow) {
						// datagram semantics: a message longer than the buffer is cut, the rest discarded
						if k >= 8 {
							idx := binary.BigEndian.Uint64(buf[:8])
							want := unrelMsg(e.rsalt, idx, 500)
							if string(want[:k]) != string(buf[:k]) {
								r.Violate(foreignClass(e), "%s: truncated unreliable Read returned bytes that are not the prefix of a written message", e.name)
							}
						}
					} else if k >= 8 {
						idx := binary.BigEndian.Uint64(buf[:8])
						want := unrelMsg(e.rsalt, idx, k-8)
						if string(want) != string(buf[:k]) {
							r.Violate(foreignClass(e), "%s: unreliable Read returned a message that was not written (index field %d, %d bytes)", e.name, idx, k)
						}
					} else {
						r.Violate(foreignClass(e), "%s: unreliable Read returned a %d-byte fragment", e.name, k)
					}
				}
				_ = err
			case op < 8: // close
				var err error
				r.Obligation(1)
				if !WithTimeout(r, 30*time.Second, func() { err = e.t.Close() }) {
					st := tubes.VerifState(e.t)
					class := "C16/close-does-not-return"
					if st == "created" || !tubes.VerifInitiated(e.t) {
						class += "/tube-never-initiated"
					}
					r.Violate(class, "%s.Close did not return within 30 simulated seconds (tube state %s, net=%d, dead since %v); goroutines:\n  %s", e.name, st, netMode, deathAt, BlockedSummary())
					return
				}
				r.Logf("%s.Close -> %v", e.name, err)
				if !e.closed && (err == nil || errors.Is(err, io.EOF)) {
					e.closed = true
					e.closedAt = r.Now()
				}
			default: // wait for close (only meaningful after a local close)
				if !e.closed {
					continue
				}
				// (the bound is on standing still, not on being slow: a tube that still has megabytes to move
				// under heavy loss when it is closed needs its time; as long as frames keep being acknowledged
				// or delivered in order, another 90 seconds are granted - 40 times at most)
				done := false
				for round, last := 0, tubes.VerifProgress(e.t); round < 40 && !done; round++ {
					done = WithTimeout(r, 90*time.Second, func() { e.t.WaitForClose() })
					now := tubes.VerifProgress(e.t)
					if done || now == last {
						break
					}
					last = now
					r.Probe("waitforclose-slow-but-moving")
				}
				mu.Lock()
				_, stopping := stopCalled[e.muxName]
				peerGone := len(stopCalled) > 0 && !stopping
				// closure of a tube needs both ends to close: find the peer end
				peerClosedFor := time.Duration(-1)
				peerState := "?"
				for _, o := range ends {
					if o != e && o.rel == e.rel && o.t.GetID() == e.t.GetID() && o.closed {
						peerClosedFor = r.Now() - o.closedAt
						peerState = tubes.VerifState(o.t)
					}
				}
				mu.Unlock()
				bothClosedLongAgo := peerClosedFor >= 90*time.Second && r.Now()-e.closedAt >= 90*time.Second
				r.Obligation(1)
				if done {
					e.waited = true
					// closure completed: reads now drain what the tube holds for its reader (the right bytes, all
					// of them) and then report end-of-stream
					held := tubes.VerifBuffered(e.t)
					drained := 0
					buf := make([]byte, 65536)
					for j := 0; j < 200; j++ {
						e.t.SetReadDeadline(time.Now().Add(50 * time.Millisecond))
						k, err := e.t.Read(buf)
						if k > 0 && e.rel {
							if bad := streamCheck(buf[:k], e.rsalt, e.roff); bad >= 0 {
								r.Violate(foreignClass(e), "%s: after closure, Read returned bytes that were not written at stream offset %d", e.name, e.roff+int64(bad))
							}
							e.roff += int64(k)
							drained += k
						}
						if err != nil {
							if !errors.Is(err, io.EOF) && !errors.Is(err, tubes.ErrBadTubeState) {
								r.Violate("C16/read-after-closure-not-eof", "%s: after WaitForClose returned, Read reports %v instead of buffered data or end-of-stream", e.name, err)
							}
							break
						}
						if k == 0 {
							break
						}
					}
					if e.rel && held > 0 {
						r.Obligation(1)
						r.Probe("closure-with-unread-buffered-data")
						if drained < held {
							r.Violate("C16/buffered-data-lost-at-closure", "%s: the tube held %d received bytes for its reader when its closure completed; reads after that returned only %d of them before end-of-stream", e.name, held, drained)
						}
					}
				} else if stopping || (alwaysAlive && !peerGone && bothClosedLongAgo) {
					class := "C16/waitforclose-unbounded"
					if !stopping && peerState == "closed" {
						// the peer end finished (by its own timer) and no longer answers: our FIN is never acknowledged
						class += "/peer-end-closed-fin-unacknowledged"
					}
					r.Violate(class, "%s (state %s, peer end state %s): WaitForClose did not complete although both ends closed more than 90 simulated seconds ago on a live network (%v) or the muxer was stopped (%v); goroutines:\n  %s", e.name, tubes.VerifState(e.t), peerState, alwaysAlive && !peerGone, stopping, BlockedSummary())
					return
				} else if alwaysAlive && !peerGone {
					r.Probe("waitforclose-pending-peer-end-still-open")
					return
				} else {
					// dead network or vanished peer: the FIN can never be acknowledged; the documented
					// bound for this case is Muxer.Stop (judged above and at the end of the run)
					r.Probe("waitforclose-pending-peer-unreachable")
					return
				}
			}
			if r.Intn(key, 3) == 0 {
				time.Sleep(time.Duration(r.Intn(key, 300)) * time.Millisecond)
			}
		}
	}

	// accept loops: every accepted tube gets its own program
	salts := map[string]uint64{}
	saltFor := func(rel bool, id byte, dir string) uint64 {
		k := fmt.Sprintf("%v/%d/%s", rel, id, dir)
		mu.Lock()
		defer mu.Unlock()
		if s, ok := salts[k]; ok {
			return s
		}
		s := hashStr(k) ^ r.Seed()
		salts[k] = s
		return s
	}
	addEnd := func(muxName string, t tubes.Tube, opener bool) {
		// content written by the opener: dir "o", by the accepter: dir "a"
		w, rd := "o", "a"
		if !opener {
			w, rd = "a", "o"
		}
		e := &shutEnd{name: fmt.Sprintf("%s.%v%d", muxName, map[bool]string{true: "rel", false: "unrel"}[t.IsReliable()], t.GetID()),
			t: t, rel: t.IsReliable(), mux: muxOf[muxName], muxName: muxName,
			wsalt: saltFor(t.IsReliable(), t.GetID(), w), rsalt: saltFor(t.IsReliable(), t.GetID(), rd), rmsg: map[uint64]bool{}}
		mu.Lock()
		ends = append(ends, e)
		mu.Unlock()
		opWG.Add(1)
		r.Go(func() { runEnd(e) })
	}
	for _, mn := range []string{"A", "B"} {
		mn := mn
		r.Go(func() {
			for {
				t, err := muxOf[mn].Accept()
				if err != nil {
					return
				}
				addEnd(mn, t, false)
			}
		})
	}
	nTubes := 1 + r.Intn("cfg", 4)
	for i := 0; i < nTubes; i++ {
		mn := []string{"A", "B"}[r.Intn("cfg", 2)]
		rel := r.Intn("cfg", 3) != 0
		if !r.Op("create") {
			continue
		}
		var t tubes.Tube
		var err error
		if rel {
			var rt *tubes.Reliable
			rt, err = muxOf[mn].CreateReliableTube(tubes.TubeType(1))
			t = rt
		} else {
			var ut *tubes.Unreliable
			ut, err = muxOf[mn].CreateUnreliableTube(tubes.TubeType(2))
			t = ut
		}
		if err != nil {
			r.Logf("create on %s: %v", mn, err)
			continue
		}
		addEnd(mn, t, true)
		if r.Intn("cfg", 2) == 0 {
			time.Sleep(time.Duration(r.Intn("cfg", 100)) * time.Millisecond)
		}
	}
	// muxer stops at drawn instants (also twice, also concurrently with Create/Accept)
	var stopWG sync.WaitGroup
	stopMux := func(mn string, after time.Duration, tag string) {
		stopWG.Add(1)
		r.Go(func() {
			defer stopWG.Done()
			time.Sleep(after)
			mu.Lock()
			if _, ok := stopCalled[mn]; !ok {
				stopCalled[mn] = r.Now()
			}
			mu.Unlock()
			r.Logf("%s.Stop (%s)", mn, tag)
			bounded("C16/stop-does-not-return", mn+".Stop ("+tag+")", 30*time.Second, func() { muxOf[mn].Stop() })
		})
	}
	for _, mn := range []string{"A", "B"} {
		if r.Intn("cfg", 2) == 0 && r.Op("stop"+mn) {
			at := time.Duration(r.Intn("cfg", 4000)) * time.Millisecond
			stopMux(mn, at, "program")
			if r.Intn("cfg", 3) == 0 {
				stopMux(mn, at+time.Duration(r.Intn("cfg", 50))*time.Millisecond, "second call")
			}
			if r.Intn("cfg", 3) == 0 { // a Create racing the Stop
				mn := mn
				r.Go(func() {
					time.Sleep(at + time.Duration(r.Intn("cfg", 5))*time.Millisecond)
					if t, err := muxOf[mn].CreateReliableTube(tubes.TubeType(3)); err == nil {
						addEnd(mn, t, true)
					}
				})
			}
		}
	}
	// wait for the programs (every operation is individually bounded)
	progDone := make(chan struct{})
	r.Go(func() { opWG.Wait(); stopWG.Wait(); close(progDone) })
	select {
	case <-progDone:
	case <-time.After(30 * time.Minute):
		r.Violate("C16/program-never-finishes", "the concurrent program did not finish within 30 simulated minutes; goroutines:\n  %s", BlockedSummary())
	}
	// final stop of both muxers, then nothing of the system may be left
	for _, mn := range []string{"A", "B"} {
		mu.Lock()
		if _, ok := stopCalled[mn]; !ok {
			stopCalled[mn] = r.Now()
		}
		mu.Unlock()
	}
	ok1 := true
	var fw sync.WaitGroup
	for _, mn := range []string{"A", "B"} {
		mn := mn
		fw.Add(1)
		r.Go(func() {
			defer fw.Done()
			if !bounded("C16/stop-does-not-return", mn+".Stop (final)", 30*time.Second, func() { muxOf[mn].Stop() }) {
				ok1 = false
			}
		})
	}
	fw.Wait()
	// after Stop every tube is closed: WaitForClose returns, Write fails
	mu.Lock()
	all := append([]*shutEnd(nil), ends...)
	mu.Unlock()
	for _, e := range all {
		e := e
		r.Obligation(1)
		if ok1 && !WithTimeout(r, 30*time.Second, func() { e.t.WaitForClose() }) {
			r.Violate("C16/tube-open-after-stop", "%s: WaitForClose still blocks 30 simulated seconds after Muxer.Stop returned; goroutines:\n  %s", e.name, BlockedSummary())
			continue
		}
		if ok1 {
			if _, err := e.t.Write([]byte{1, 2, 3, 4, 5, 6, 7, 8, 9}); err == nil {
				r.Violate("C16/write-after-stop-succeeds", "%s: Write returned nil after Muxer.Stop returned", e.name)
			}
		}
	}
	r.YieldsOn(false)
	r.Sample = append(r.Sample, fmt.Sprintf("tubes=%d ends=%d net=%d", nTubes, len(all), netMode))
	r.Logf("ends=%d", len(all))
	time.Sleep(2 * time.Minute)
	_ = os.ErrDeadlineExceeded
}
