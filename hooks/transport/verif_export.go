//go:build verif

package transport

import (
	"net"

	"hop.computer/hop/certs"
	"hop.computer/hop/keys"
)

// White-box accessors for the simulation harness (/verif).  This file is added
// to the package with `go build -overlay`; it does not exist in the repository.

// VerifSession describes the cryptographic state of an established session.
type VerifSession struct {
	ID       [4]byte
	C2S, S2C [KeyLen]byte
	Remote   *net.UDPAddr
	Count    uint64
	Closed   bool
	Hidden   bool
}

func snapshotSession(ss *SessionState) (VerifSession, bool) {
	if ss == nil {
		return VerifSession{}, false
	}
	ss.m.Lock()
	defer ss.m.Unlock()
	v := VerifSession{ID: ss.sessionID, C2S: ss.clientToServerKey, S2C: ss.serverToClientKey, Count: ss.count,
		Closed: ss.handleState == closed, Hidden: ss.isHiddenHS}
	if ss.remoteAddr != nil {
		a := *ss.remoteAddr
		v.Remote = &a
	}
	return v, true
}

// VerifSession returns the client's session state after a completed handshake.
func (c *Client) VerifSession() (VerifSession, bool) {
	if c.state.Load() != clientStateOpen {
		return VerifSession{}, false
	}
	return snapshotSession(c.ss)
}

// VerifSession returns the session state behind a server handle.
func (h *Handle) VerifSession() (VerifSession, bool) { return snapshotSession(h.ss) }

// VerifTables returns the sizes of the server's handshake and session tables.
func (s *Server) VerifTables() (handshakes, sessions int) {
	s.m.RLock()
	defer s.m.RUnlock()
	return len(s.handshakes), len(s.sessions)
}

// VerifSessions returns a snapshot of every session in the server's table
// (including sessions whose handshake has not finished: keys are zero then).
func (s *Server) VerifSessions() []VerifSession {
	s.m.RLock()
	list := make([]*SessionState, 0, len(s.sessions))
	for _, ss := range s.sessions {
		list = append(list, ss)
	}
	s.m.RUnlock()
	out := make([]VerifSession, 0, len(list))
	for _, ss := range list {
		if v, ok := snapshotSession(ss); ok {
			out = append(out, v)
		}
	}
	return out
}

// VerifEstablished reports whether the session with this id has a handle
// (i.e. finishHandshake ran for it).
func (s *Server) VerifEstablished(id [4]byte) bool {
	s.m.RLock()
	ss := s.sessions[SessionID(id)]
	s.m.RUnlock()
	if ss == nil {
		return false
	}
	ss.m.Lock()
	defer ss.m.Unlock()
	return ss.handle != nil
}

// ---------------------------------------------------------------------------
// Protocol-following adversary pieces for the cookie checks (C19).  They are
// attacker code built from the package's own message writers: an error here can
// only cost detection power (the control case "same key, same address" must be
// accepted by the server, which the harness checks), never raise an alarm.

// VerifAdvClientHello returns a valid ClientHello for the KEM key pair.
func VerifAdvClientHello(kp *keys.KEMKeyPair) ([]byte, error) {
	hs := new(HandshakeState)
	hs.duplex.InitializeEmpty()
	hs.duplex.Absorb([]byte(PostQuantumProtocolName))
	hs.kem = new(kemState)
	hs.kem.ephemeral = *kp
	buf := make([]byte, 65535)
	n, err := writePQClientHello(hs, buf)
	return buf[:n], err
}

// VerifAdvOpenServerHello extracts the KEM shared secret and the cookie from a ServerHello.
func VerifAdvOpenServerHello(kp *keys.KEMKeyPair, sh []byte) (k, cookie []byte, err error) {
	if len(sh) < HeaderLen+KemCtLen+PQCookieLen+MacLen {
		return nil, nil, ErrBufUnderflow
	}
	k, err = kp.Decapsulate(sh[HeaderLen : HeaderLen+KemCtLen])
	if err != nil {
		return nil, nil, err
	}
	cookie = append([]byte(nil), sh[HeaderLen+KemCtLen:HeaderLen+KemCtLen+PQCookieLen]...)
	return k, cookie, nil
}

// VerifAdvClientAck builds a ClientAck that presents ackKey as the client's KEM
// key together with a cookie and shared secret that may have been obtained
// under another key or address.  Its transcript is the one the server will
// reconstruct from the acknowledgement itself, so only the cookie's binding can
// make the server refuse it.
func VerifAdvClientAck(ackKey *keys.KEMKeyPair, k, cookie []byte, name certs.Name) ([]byte, error) {
	hs := new(HandshakeState)
	hs.dh = new(dhState)
	hs.dh.ephemeral.Generate()
	hs.kem = new(kemState)
	hs.kem.ephemeral = *ackKey
	hs.cookie = append([]byte(nil), cookie...)
	hs.certVerify = &VerifyConfig{Name: name}
	pub, err := ackKey.Public.MarshalBinary()
	if err != nil {
		return nil, err
	}
	hs.duplex.InitializeEmpty()
	hs.duplex.Absorb([]byte(PostQuantumProtocolName))
	hs.duplex.Absorb([]byte{byte(MessageTypeClientHello), Version, 0, 0})
	hs.duplex.Absorb(pub)
	hs.duplex.Squeeze(hs.macBuf[:])
	hs.duplex.Absorb([]byte{byte(MessageTypeServerHello), 0, 0, 0})
	hs.duplex.Absorb(k)
	hs.duplex.Absorb(cookie)
	hs.duplex.Squeeze(hs.macBuf[:])
	hs.RekeyFromSqueeze(PostQuantumProtocolName)
	buf := make([]byte, 65535)
	n, err := hs.writePQClientAck(buf)
	return buf[:n], err
}

// VerifDial, when set, replaces the socket-opening part of DialWithDialer (the build step
// of /verif inserts the call at the top of that function in the instrumented copy): the
// simulation hands out a client on a simulated endpoint instead of a real UDP socket.
var VerifDial func(dialer *net.Dialer, network, address string, config ClientConfig) (*Client, error)

// VerifSetHandshakeLeaf replaces the certificate bytes a client will present in the ClientAuth of the
// handshake it is running (an attacker who follows the protocol with a certificate blob of its own
// making).  Called by the simulated network while the client waits for the server's next message.
func (c *Client) VerifSetHandshakeLeaf(leaf []byte) bool {
	if c.hs == nil {
		return false
	}
	c.hs.leaf = leaf
	return true
}

// VerifSetSendCounter moves the send counter of an established session forward (the state a long-lived
// session reaches by itself after that many packets).
func (c *Client) VerifSetSendCounter(v uint64) bool {
	if c.ss == nil {
		return false
	}
	c.ss.m.Lock()
	defer c.ss.m.Unlock()
	if v < c.ss.count {
		return false
	}
	c.ss.count = v
	return true
}

// VerifSetSendCounter is the same for the server side of a session.
func (h *Handle) VerifSetSendCounter(v uint64) bool {
	h.ss.m.Lock()
	defer h.ss.m.Unlock()
	if v < h.ss.count {
		return false
	}
	h.ss.count = v
	return true
}

// VerifSealWithKey builds a well-formed transport (or control) packet for a session id and counter under a key
// of the caller's choice, with the package's own sealing routine: what an attacker can compute for keys it
// can guess (all-zero, all-ones, ...).
func VerifSealWithKey(id [4]byte, counter uint64, key [KeyLen]byte, mt MessageType, payload []byte) ([]byte, error) {
	ss := &SessionState{sessionID: SessionID(id), count: counter}
	return ss.sealPacketLocked(mt, payload, &key)
}

// VerifAdvForgeCookie seals a cookie for (client KEM key, address, shared secret) under a cookie key of the
// caller's choice with the server's own routine: what an attacker can compute for keys it can guess.
func VerifAdvForgeCookie(cookieKey [KeyLen]byte, kp *keys.KEMKeyPair, addr *net.UDPAddr, k []byte) ([]byte, error) {
	hs := &HandshakeState{cookieKey: cookieKey, remoteAddr: addr, kem: &kemState{remoteEphemeral: kp.Public}}
	b := make([]byte, PQCookieLen)
	n, err := hs.writeCookie(b, k)
	return b[:n], err
}

// VerifSkipSendCounters moves the send counter forward by d (the state after d packets that were sent and
// lost in a burst) and returns the new value.
func (c *Client) VerifSkipSendCounters(d uint64) uint64 {
	if c.ss == nil {
		return 0
	}
	c.ss.m.Lock()
	defer c.ss.m.Unlock()
	c.ss.count += d
	return c.ss.count
}

// VerifSkipSendCounters is the same for the server side of a session.
func (h *Handle) VerifSkipSendCounters(d uint64) uint64 {
	h.ss.m.Lock()
	defer h.ss.m.Unlock()
	h.ss.count += d
	return h.ss.count
}
